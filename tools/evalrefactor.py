#!/usr/bin/env python3
"""Apply a behaviour-preserving refactoring to /repo, run every check (quick), report every alarm (any non-zero exit), undo."""
import json, os, subprocess, sys, glob
VERIF = os.path.dirname(os.path.dirname(os.path.abspath(__file__)))
PROPS = [f'C{i:02d}' for i in range(1, 21)]
def sh(cmd): return subprocess.run(cmd, shell=True, capture_output=True, text=True)
for patch in sys.argv[1:]:
    assert sh('git -C /repo status --porcelain').stdout.strip() == '', '/repo not clean'
    a = sh(f'git -C /repo apply {patch}')
    if a.returncode != 0:
        print(patch, 'DOES NOT APPLY', a.stderr[:200]); continue
    try:
        alarms = []
        for pid in PROPS:
            r = sh(f'cd {VERIF} && ./check {pid} --no-write')
            if r.returncode != 0:
                lines = [l for l in r.stdout.splitlines() if l.startswith(('    rule=', 'ANALYSIS-ERROR'))]
                det = [l.strip()[:260] for l in r.stdout.splitlines() if l.startswith('    ') and not l.startswith('    rule=')]
                alarms.append((pid, r.returncode, [l.strip()[:200] for l in lines][:4], det[:3]))
        print(patch, 'ALARMS:' if alarms else 'silent')
        for a_ in alarms:
            print('   ', a_[0], 'exit', a_[1])
            for l in a_[2]: print('       ', l)
            for l in a_[3]: print('          ', l)
    finally:
        sh('git -C /repo checkout -- . && git -C /repo clean -fdq src')
