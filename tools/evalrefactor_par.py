#!/usr/bin/env python3
"""Evaluate behaviour-preserving patches in parallel: each patch is applied to a scratch copy of /repo/src (outside /repo and /verif), every
check runs against the copy (quick tier, no evidence written), alarms (any non-zero exit) are listed, the copy is removed."""
import os, subprocess, sys, shutil, tempfile
from concurrent.futures import ThreadPoolExecutor
VERIF = os.path.dirname(os.path.dirname(os.path.abspath(__file__)))
PROPS = [f'C{i:02d}' for i in range(1, 21)]
def sh(cmd): return subprocess.run(cmd, shell=True, capture_output=True, text=True)
def one(job):
    root, pid = job
    r = sh(f'cd {VERIF} && ./check {pid} --repo {root} --no-write')
    if r.returncode == 0: return None
    lines = [l.strip()[:200] for l in r.stdout.splitlines() if l.startswith(('    rule=', 'ANALYSIS-ERROR'))][:4]
    det = [l.strip()[:260] for l in r.stdout.splitlines() if l.startswith('    ') and not l.startswith('    rule=')][:3]
    return (pid, r.returncode, lines, det)
base = tempfile.mkdtemp(prefix='evalref_', dir='/tmp')
try:
    roots = []
    for i, patch in enumerate(sys.argv[1:]):
        root = os.path.join(base, f'p{i}')
        os.makedirs(root)
        shutil.copytree('/repo/src', os.path.join(root, 'src'))
        a = sh(f'patch -p1 -s -d {root} < {patch}')
        if a.returncode != 0:
            print(patch, 'DOES NOT APPLY', (a.stdout + a.stderr)[:200]); continue
        roots.append((patch, root))
    jobs = [(root, pid) for _, root in roots for pid in PROPS]
    with ThreadPoolExecutor(max_workers=int(os.environ.get('JOBS', '16'))) as ex:
        res = list(ex.map(one, jobs))
    k = 0
    for patch, root in roots:
        alarms = [r for r in res[k:k + len(PROPS)] if r]; k += len(PROPS)
        print(patch, 'ALARMS:' if alarms else 'silent')
        for a_ in alarms:
            print('   ', a_[0], 'exit', a_[1])
            for l in a_[2]: print('       ', l)
            for l in a_[3]: print('          ', l)
finally:
    shutil.rmtree(base, ignore_errors=True)
