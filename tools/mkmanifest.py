#!/usr/bin/env python3
"""Regenerate MANIFEST.json from the table below (kept in one place so the manifest stays valid while checks are added)."""
import json, os
HERE = os.path.dirname(os.path.dirname(os.path.abspath(__file__)))
BASE_NOTE = ("Trusted base: CPython ast; the semantics of the Python fragments the engines model (DESIGN.md section 3); external libraries "
             "(numpy, scipy, schemdraw, json, yaml) assumed to behave as documented; assumption list written into the evidence file. "
             "A pass means 'the code has the stated structure on every path', not 'the numbers are right'.")
CHECKS = {
 'C02': ('E1 term normal forms vs formulas of the statement; gate rule on the component kind; RMS/DC wrappers and network wiring',
         'Decides the per-kind immittance / phasor formulas, the frequency gating (iff the kind carries a frequency, short/open, exact guard), the RMS / DC wrappers and that each solution is built from the network at its own frequency. Necessary conditions of C02 that hold for every value because they are properties of the code; exactness of the numeric solve is not decided.', '4/C02'),
 'C04': ('E1 normal form of the source-zeroing rewrites; argument-flow of the exemption list; attribute read-sets over the call graph',
         'Decides that zeroing rewrites keep name/terminals/immittance under exactly the stated guard, that exemption lists are threaded, and that the coefficient matrix never reads a source value. Linearity of the numeric solve itself is not decided.', '4/C04'),
 'C05': ('E1 term normal forms of the six power formulas (a single sum of per-component products is refuted: cross terms); index-space typing of the voltage / current read-back the formulas multiply',
         'Decides the five power formulas (V conj I, 1/2 for peak, V I, v(t) i(t), series product) and that both factors are queried for the same identifier. The conservation sum and sign inequalities follow mathematically but are not computed.', '4/C05'),
 'C07': ('table agreement (kinds vs dispatch table, keys written vs read), E1 normal forms per translator, traversal shape',
         'Exhaustive over the finite kind table: every constructible kind has a translator, reads only keys its constructor writes, uses every stored parameter, keeps id and terminal order on every path, and equals the per-kind formula; the traversal is one pass filtered only by table membership. Run-time parameter values are not explored.', '4/C07'),
 'C16': ('effect analysis (no write through network/keep) + E1 normal form of the contraction step, filters and reference-label threading',
         'Decides purity of the transformers, the terminal-wise rewrite of short contraction (absorbed->retained, element kept, exactly self-loops dropped, reference never absorbed), the open/element filters and label threading. Electrical equivalence of results is not decided.', '4/C16'),
 'C17': ('table-vs-signature agreement, one literal entry evaluated through the loader (decidable lookup errors), key-order invariance of every two-valued kind (entry values applied to symbolic arguments), effect analysis, E1 formulas for complex notations, structural symmetry of the recursive converters, typed-error paths',
         'Decides that each loader entry passes every keyword exactly once to an accepting factory, that no loader/converter writes to its input, the Cartesian/polar/degree formulas, that dictify/undictify recurse alike, and the typed errors. Bit-exact float round trips are not decided.', '4/C17'),
 'C19': ('sign facts learnt from dominating raise guards (E1), whole raise conditions (paths and guards) compared with the specification as propositional formulas over comparison atoms, path enumeration for identifier validation (E2), dispatch-table lookup discipline',
         'Decides that every constrained constructor parameter is guarded by a dominating raise, the network/circuit invariants and their path coverage, raising lookups in every kind table, and that every returning path of every query validates its identifier.', '4/C19'),
 'C20': ('interprocedural ownership/effect analysis to a fixpoint over the resolved call graph (tables, default callables, partials)',
         'Decides for every function in Network/, Circuit/, SignalProcessing/, dump_load.py that no path writes to a parameter-owned object, mutable default, module global or (outside construction) self, and that no caching decorator exists; a built-in positive example must be reported on every run. Equality of results between histories is implied, not observed.', '4/C20'),
}
CHECKS.update({
 'C01': ('index-space typing of the normal forms of the numpy assembly / read-back, incidence sign tables by case analysis on the build terms, guards of the stored solution (fallback rule), E1 normal forms of current recovery',
         'Decides that every index, slice, product, stack and solve of the MNA path joins equal label spaces for every label set, that the system is laid out (N+V), the incidence sign conventions and their relations to the read-back signs, and the per-kind branch-current formulas. Exactness / uniqueness of the numeric solve is not decided.', '4/C01'),
 'C03': ('index-space typing over steady-state, state-space, transient and port code; terminal antisymmetry; no literal reference label',
         'Static form of renaming/permutation invariance: a position may depend on labels or listing order only through one map used on both sides; 280+ join obligations must hold for every label set (not just the suite\'s naming scheme). Floating-point summation order and the relation between two actual runs are not decided.', '4/C03'),
 'C06': ('typestate of the inverted matrix (def-use chain, or provenance read off the evaluated result), index-space typing through pruning, early-return shape under hypotheses, E1 formulas, import binding',
         'Decides that the inverted matrix has its ideal voltage sources shorted, that the node is located in the pruned layout of the same re-referenced network, the early returns / swap / terminal wiring, and the Thevenin / Norton / short-circuit formulas. Numerical symmetry and composition laws are not decided.', '4/C06'),
 'C10': ('index-space typing of builder, accessors and wrapper; non-commutative matrix normal forms vs the MNA derivation; builder wiring; mirrored accessors; per-case normal forms of the current rows (own voltage row over own impedance, C times own state row)',
         'Decides that state order, source order and output-row addressing agree for every naming / listing order, that A, B, C, D normalise to the formulas derived from the MNA system (symmetric A~), and the argument wiring. Equality of transfer functions for actual values and conditioning are not decided.', '4/C10'),
 'C11': ('structural prerequisites only: diagonal algebra on the value matrix (sign and order of Lambda, element-wise reciprocal, no store into the value vector), index-space typing of everything that involves the state order, left multiplication, zero initial state',
         'Decides only necessary conditions (Lambda = diag(-C, +L) in state order, A = Lambda^-1 S, simulation from rest). The property\'s main clause -- definiteness of W A + A^T W, eigenvalue location, bounded energy -- quantifies over run-time values and is NOT decided.', '4/C11'),
 'C12': ('index-space typing of TransientSolution, E1 wiring of model construction, solver arguments and output-row pairing',
         'Decides that the model is built at w=0 from the circuit\'s own C/L values in listing order, inputs follow the published source order (= columns of B), the solver receives (A,B,I,0), u^T, tin, zero state, and each getter pairs c_row_Q with d_row_Q for the same id. Accuracy of lsim and the differential relations per sample are not decided.', '4/C12'),
})
CHECKS.update({
 'C08': ('E1 normal forms of each wave class\'s time function and of the phasor A_n e^{j phi_n} per case (n=0, n=1, even, odd) against a hand-derived reference table; a/b/c conversions; lookup tables',
         'Decides that for each of the six waveforms both the time function and the harmonic coefficients equal one row of the reference table (so the coefficients are those of the waveform\'s own time function, up to the correctness of the table), the a/b/c and +-n relations, and the lookup wiring. Convergence / Parseval for actual numbers is not decided.', '4/C08'),
 'C09': ('E1 normal forms of the frequency list, of the time-domain sum and of the solution wiring; contradiction rule on frequency comparison; type rule on the two-sided branch',
         'Decides the frequency-list construction, the sum |X|cos(wt+arg X) with values and frequencies paired in the same order, peak phasors per frequency, harmonic selection, and reports two recorded genuine defects (exact-hash de-duplication, two-sided branch) as KNOWN-FINDING. KCL at every instant and truncation error are not decided.', '4/C09'),
 'C13': ('symbol->component table exhaustiveness, E1 normal forms of every translator (kind, id, nodes, values, reversal, degree conversion), reversal rule of the symbol classes, rounding / labelling path',
         'Decides that every symbol class has a translator building the matching kind from the symbol\'s own quantities, the reversal rule on translators and classes, the degree conversion, and that every terminal coordinate goes through one rounding function and one equipotential map. Geometric invariance of actual drawings is not decided.', '4/C13'),
 'C14': ('E1 normal form of the value handed to each formatter (sign rule), formatter/unit/option pairing, label factories, constructor wiring, SI tables',
         'Decides for every adapter x quantity that the formatted value is (-1 if reverse else 1) x solution.get_Q(name) with the right unit and forwarded options, that draw_Q queries the name and direction it labels, and the constructor / declarative-kind wiring. The rendered text for actual numbers is not decided.', '4/C14'),
 'C15': ('agreement of the repository\'s own tables, read off their evaluated VALUES (each loader entry applied to exactly the saved keys of its kind with a decidable TypeError; element record written vs element rebuilt; handler table) and a symbolic save->load->translate fixed-point check',
         'Decides that each loader key rebuilds the class of that type from value keys its component kind really writes, that written = restored fields, the handler / direction / placement tables, and that re-translating the rebuilt symbol reproduces every fed-back value for all flag combinations (four recorded genuine defects are reported as KNOWN-FINDING). Equality of the reloaded drawing is not decided.', '4/C15'),
 'C18': ('structural part only: SI prefix tables in use (evaluated), exponent multiple of three by construction (E1), prefix letter + exponent extension = engineering exponent by partial evaluation over a finite exponent range per table, sign glyph guards, saturation tested first',
         'Decides only the table / structural clauses. The property\'s main clause -- half-unit accuracy of the digit string for every binary64 value -- is string arithmetic on run-time values and is NOT decided.', '4/C18'),
})
NOT_YET = {}
ALL = [f'C{i:02d}' for i in range(1, 21)]
NA_REASON = 'checker not built yet in this session (planned in DESIGN.md section 4); no claim is made'
man = {
 'version': 1,
 'setup_cmd': 'cd /verif && ./check setup',
 'hooks': {'guard': 'CIRCUITCALCULATOR_VERIF', 'enable': 'none needed: checks parse /repo/src and never import it', 'baseline_off_cmd':
           'cd /repo && /venv/bin/python -m pytest -ra -q -p no:cacheprovider --timeout=900 --continue-on-collection-errors', 'source_commits': [], 'add_only': True},
 'engines': [
  {'name': 'E0 program model', 'path': 'cc/prog.py', 'serves_properties': ALL, 'kind_free_text': 'ast-based import/alias/class/table resolution'},
  {'name': 'E1 terms', 'path': 'cc/terms.py', 'serves_properties': ALL, 'kind_free_text': 'symbolic evaluation of the source to normal forms (never executed): use-def expanded terms, ring normal form, guard decision trees, sign facts, array build terms, block normal forms, decidable exceptions, evaluated module-level tables'},
  {'name': 'E2 paths', 'path': 'cc/paths.py', 'serves_properties': ['C19','C06','C18'], 'kind_free_text': 'structured path enumeration, must-pass-through'},
  {'name': 'E4t index spaces', 'path': 'cc/spacet.py', 'serves_properties': ['C01','C03','C06','C10','C11','C12'], 'kind_free_text': 'type inference of label spaces per array axis on E1 normal forms (space algebra in cc/spaces.py; the older syntax-directed interpreter there is kept for comparison, VERIF_E4=ast)'},
  {'name': 'E1(nc) matrix normal forms', 'path': 'cc/ncalg.py', 'serves_properties': ['C10','C11'], 'kind_free_text': 'non-commutative normal forms with transposes / inverses'},
  {'name': 'E3 effects', 'path': 'cc/effects.py', 'serves_properties': ['C16','C17','C20'], 'kind_free_text': 'ownership/effect analysis with interprocedural summaries'},
 ],
 'checks': [], 'not_applicable': [],
 'notes': 'Static analysis only: every check re-parses /repo/src on each run; nothing from the repository is imported or executed. Exit 0/1/2 = holds / VIOLATION / analysis error. See DESIGN.md.',
}
for pid in ALL:
    if pid in CHECKS:
        tech, text, ref = CHECKS[pid]
        man['checks'].append({
            'property_id': pid, 'quick_cmd': f'./check {pid} --tier quick', 'thorough_cmd': f'./check {pid} --tier thorough',
            'evidence_file': f'/verif/evidence/{pid}.json', 'replay_cmd_template': './check ' + pid + ' --tier quick  # replay file {path} names rule, instance and site',
            'engine': 'cc (static analysis)', 'technique': 'static analysis: ' + tech,
            'level_claimed': {'category': 'other', 'text': text, 'design_ref': 'DESIGN.md section ' + ref},
            'level_note': BASE_NOTE})
    else:
        man['not_applicable'].append({'property_id': pid, 'reason': NOT_YET.get(pid, NA_REASON)})
json.dump(man, open(os.path.join(HERE, 'MANIFEST.json'), 'w'), indent=1)
print('manifest:', len(man['checks']), 'checks,', len(man['not_applicable']), 'not applicable')
