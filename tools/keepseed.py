#!/usr/bin/env python3
"""Keep confirmed seeded changes: copy /tmp/seed/<PID>/out/{patch<i>.diff,demo<i>.py,meta<i>.json} to /verif/seeded/<PID>-<i>/ after
re-confirming (demo passes on /repo, fails with the patch applied) and recording which checks report it."""
import json, os, shutil, subprocess, sys, glob
sys.path.insert(0, os.path.dirname(os.path.abspath(__file__)))
from evalseed import evaluate
VERIF = os.path.dirname(os.path.dirname(os.path.abspath(__file__)))
for d in sys.argv[1:]:
    pid = os.path.basename(os.path.dirname(d.rstrip('/'))) if os.path.basename(d.rstrip('/')) == 'out' else os.path.basename(d.rstrip('/'))
    for p in sorted(glob.glob(os.path.join(d, 'patch[0-9].diff'))):
        i = os.path.basename(p)[5]
        demo = os.path.join(d, f'demo{i}.py'); meta = os.path.join(d, f'meta{i}.json')
        r = evaluate(p, demo)
        ok = r.get('demo_clean') == 0 and r.get('demo_patched') not in (0, None)
        print(pid, i, 'confirmed' if ok else 'NOT CONFIRMED', {k: (v['exit'], v['violations']) for k, v in r.get('fired', {}).items()})
        if not ok: continue
        out = os.path.join(VERIF, 'seeded', f'{pid}-{i}')
        os.makedirs(out, exist_ok=True)
        shutil.copy(p, os.path.join(out, 'patch.diff')); shutil.copy(demo, os.path.join(out, 'demo.py'))
        m = json.load(open(meta)) if os.path.exists(meta) else {}
        m.update({
            'breaks_property': pid,
            'origin': 'independent sub-agent given only the property text and a scratch worktree',
            'what_i_ran': [f'git -C /repo apply seeded/{pid}-{i}/patch.diff', f'PYTHONPATH=/repo/src MPLBACKEND=Agg /venv/bin/python seeded/{pid}-{i}/demo.py  (exit {r.get("demo_patched")} with the change, exit {r.get("demo_clean")} without)',
                           './check <every property> (quick tier)', 'git -C /repo checkout -- .'],
            'demo_exit_clean': r.get('demo_clean'), 'demo_exit_patched': r.get('demo_patched'),
            'checks_reporting': {k: {'exit': v['exit'], 'violation_lines': v['violations'], 'first': v['first']} for k, v in r.get('fired', {}).items()},
            'caught_by_own_property_check': pid in r.get('fired', {}) and r['fired'][pid]['exit'] == 1,
        })
        json.dump(m, open(os.path.join(out, 'meta.json'), 'w'), indent=1)
