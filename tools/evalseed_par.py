#!/usr/bin/env python3
"""Re-evaluate every kept seed against every check, in parallel, on scratch copies of /repo/src (outside /repo and /verif, removed afterwards),
and refresh `checks_reporting` in seeded/<id>/meta.json.  The demonstrations are not re-run here (tools/evalseed.py does that on /repo itself)."""
import os, subprocess, sys, shutil, tempfile, json, glob
from concurrent.futures import ThreadPoolExecutor
VERIF = os.path.dirname(os.path.dirname(os.path.abspath(__file__)))
PROPS = [f'C{i:02d}' for i in range(1, 21)]
def sh(cmd): return subprocess.run(cmd, shell=True, capture_output=True, text=True)
def one(job):
    root, pid = job
    r = sh(f'cd {VERIF} && ./check {pid} --repo {root} --no-write')
    if r.returncode == 0: return None
    v = [l for l in r.stdout.splitlines() if l.startswith('VIOLATION')]
    det = [l.strip() for l in r.stdout.splitlines() if l.startswith('    rule=')]
    e = [l for l in r.stdout.splitlines() if l.startswith('ANALYSIS-ERROR')]
    return (pid, {'exit': r.returncode, 'violations': len(v), 'first': (det or e or [''])[0][:230]})
base = tempfile.mkdtemp(prefix='evalseed_', dir='/tmp')
try:
    seeds = sorted(glob.glob(os.path.join(VERIF, 'seeded', '*')))
    roots = []
    for d in seeds:
        root = os.path.join(base, os.path.basename(d)); os.makedirs(root)
        shutil.copytree('/repo/src', os.path.join(root, 'src'))
        a = sh(f'patch -p1 -s -d {root} < {d}/patch.diff')
        if a.returncode != 0: print(d, 'DOES NOT APPLY', (a.stdout + a.stderr)[:200]); continue
        roots.append((d, root))
    jobs = [(root, pid) for _, root in roots for pid in PROPS]
    with ThreadPoolExecutor(max_workers=int(os.environ.get('JOBS', '16'))) as ex:
        res = list(ex.map(one, jobs))
    k = 0
    for d, root in roots:
        fired = dict(r for r in res[k:k + len(PROPS)] if r); k += len(PROPS)
        mp = os.path.join(d, 'meta.json'); m = json.load(open(mp))
        m['checks_reporting'] = fired
        json.dump(m, open(mp, 'w'), indent=1, ensure_ascii=False)
        own = fired.get(m.get('breaks_property'))
        print(os.path.basename(d), 'own check:', (own or {}).get('exit'), '| all:', {p: v['exit'] for p, v in fired.items()})
finally:
    shutil.rmtree(base, ignore_errors=True)
