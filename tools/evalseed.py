#!/usr/bin/env python3
"""Apply a seeded change to /repo, confirm its demonstration fails with it and passes without it, run every check, undo the change.
usage: evalseed.py <dir with patch.diff + demo.py> [...]      (or the raw agent layout: <dir>/patch<i>.diff demo<i>.py)"""
import json, os, subprocess, sys, glob
VERIF = os.path.dirname(os.path.dirname(os.path.abspath(__file__)))
PROPS = [f'C{i:02d}' for i in range(1, 21)]

def sh(cmd, **kw):
    return subprocess.run(cmd, shell=True, capture_output=True, text=True, **kw)

def demo(path):
    r = sh(f'cd /tmp && PYTHONPATH=/repo/src MPLBACKEND=Agg timeout 600 /venv/bin/python {path}')
    return r.returncode, (r.stdout + r.stderr)[-300:]

def evaluate(patch, demo_py, only=None):
    assert sh('git -C /repo status --porcelain').stdout.strip() == '', '/repo not clean'
    res = {'patch': patch}
    rc0, _ = demo(demo_py); res['demo_clean'] = rc0
    a = sh(f'git -C /repo apply {patch}')
    if a.returncode != 0:
        res['error'] = 'patch does not apply: ' + a.stderr[:200]; return res
    try:
        rc1, out1 = demo(demo_py); res['demo_patched'] = rc1; res['demo_msg'] = out1[-200:]
        fired = {}
        for pid in (only or PROPS):
            r = sh(f'cd {VERIF} && ./check {pid} --no-write')
            v = [l for l in r.stdout.splitlines() if l.startswith('VIOLATION')]
            e = [l for l in r.stdout.splitlines() if l.startswith('ANALYSIS-ERROR')]
            det = [l.strip() for l in r.stdout.splitlines() if l.startswith('    rule=')]
            if r.returncode != 0: fired[pid] = {'exit': r.returncode, 'violations': len(v), 'first': (det or e or [''])[0][:230]}
        res['fired'] = fired
    finally:
        sh('git -C /repo checkout -- . && git -C /repo clean -fdq src')
    return res

if __name__ == '__main__':
    for d in sys.argv[1:]:
        pairs = []
        if os.path.exists(os.path.join(d, 'patch.diff')): pairs.append((os.path.join(d, 'patch.diff'), os.path.join(d, 'demo.py')))
        for p in sorted(glob.glob(os.path.join(d, 'patch[0-9].diff'))):
            i = os.path.basename(p)[5]
            pairs.append((p, os.path.join(d, f'demo{i}.py')))
        for p, dm in pairs:
            r = evaluate(p, dm)
            print(json.dumps(r, indent=1))
