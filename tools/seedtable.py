#!/usr/bin/env python3
"""print the markdown table 'which checks catch which seeded change' from /verif/seeded/*/meta.json"""
import json, glob, os
HERE = os.path.dirname(os.path.dirname(os.path.abspath(__file__)))
print('| seed | breaks | change (needs) | reported by (exit 1 = VIOLATION, 2 = analysis error) |')
print('|---|---|---|---|')
for d in sorted(glob.glob(os.path.join(HERE, 'seeded', '*'))):
    m = json.load(open(os.path.join(d, 'meta.json')))
    rep = ', '.join(f"{k}:{v['exit']}" + (f" ({v['first'].split('rule=')[-1].split(' ')[0]})" if 'rule=' in v['first'] else '') for k, v in sorted(m.get('checks_reporting', {}).items()))
    summ = (m.get('summary', '') or '').replace('|', '/').replace('\n', ' ')[:150]
    needs = (m.get('needs', '') or '').replace('|', '/').replace('\n', ' ')[:120]
    print(f"| {os.path.basename(d)} | {m.get('breaks_property')} | {summ} — *{needs}* | {rep or '**not reported**'} |")
