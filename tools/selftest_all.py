#!/usr/bin/env python3
"""developer tool: run the both-ways self-test for all (or the given) properties and print a table"""
import sys, os
sys.path.insert(0, os.path.dirname(os.path.dirname(os.path.abspath(__file__))))
from cc.selftest import run_selftest
from cc.report import Report
pids = sys.argv[1:] or [f'C{i:02d}' for i in range(1, 21)]
tot = {}
for pid in pids:
    rep = Report(pid, 'thorough', '/repo', write=False)
    bres, pres = run_selftest(pid, '/repo/src', rep)
    st = rep.extra['selftest']
    print(pid, st)
    for r in bres:
        if r[2] not in ('caught',): print('   B', r[1], '->', r[2], r[3][:150])
    for r in pres:
        if r[2] != 'silent': print('   P', r[1], '->', r[2], r[3][:200])
