#!/usr/bin/env python3
"""Freeze the confirmed baseline: per property and rule, the minimum instance count and (for rules with semantic keys) the keys that
must stay decidable.  Run by hand after the instances were confirmed by reading; never run by a check."""
import json, os, sys, importlib
sys.path.insert(0, os.path.dirname(os.path.dirname(os.path.abspath(__file__))))
from cc.report import Report, PROVEN
from cc.api import program
from cc.main import PROPS

# rules whose keys contain function / module names that a harmless refactoring may change: only counts are frozen (80 %)
COUNT_ONLY = ('R20.param', 'R17.pure', 'R16.pure', 'R19.id', 'R19.miss', 'R0.import', 'R03.space', 'R01.space', 'R10.space', 'R12.space', 'R06.space',
              'R20.default', 'R07.keys', 'R15.fields', 'R13.round', 'R11.space', 'R18.tables', 'R14.si', 'R15.pure', 'R17.pure', 'R16.pure', 'R05.space', 'R18.clamp')

out = {}
prog = program('/repo/src')
for pid in PROPS:
    try:
        mod = importlib.import_module(f'cc.rules.{pid.lower()}')
    except ModuleNotFoundError:
        continue
    rep = Report(pid, 'quick', '/repo', write=False)
    mod.run(rep, prog, 'quick')
    rules = {}
    for o in rep.obs:
        r = rules.setdefault(o['rule'], {'min': 0, 'keys': [], 'max_unknown': 0, 'unknown_keys': []})
        r['min'] += 1
        if o['verdict'] == 'UNKNOWN':
            r['max_unknown'] += 1; r['unknown_keys'].append(o['key'])
        if o['verdict'] == PROVEN and not o['rule'].startswith(COUNT_ONLY):
            r['keys'].append(o['key'])
    for rid, r in rules.items():
        if rid.startswith(COUNT_ONLY):
            # per-function rules (purity): how many functions a module is split into is not part of the property
            r['min'] = max(1, int(r['min'] * (0.3 if rid.endswith('.pure') else (0.6 if rid.endswith('.space') else 0.8)))); r['keys'] = []      # .space rules carry their own minimum and required kinds
    out[pid] = {'rules': rules}
path = os.path.join(os.path.dirname(os.path.dirname(os.path.abspath(__file__))), 'baseline.json')
json.dump(out, open(path, 'w'), indent=1, sort_keys=True)
print('baseline written for', sorted(out))
