"""Both-ways self-test of the checkers (thorough tier): variants of the CURRENT tree are built in memory (never executed, never written
into /repo or /verif), analysed, and the verdict compared with what the variant must produce.

  breaking variant   one instance broken (textual edit of one site, must still compile): the named rule must report it
  preserving variant behaviour-preserving rewrite (rename locals, re-emit with ast.unparse, reorder definitions, commute products,
                     add annotations/docstrings): no rule may report anything new and no proven instance may become unknown

A breaking variant that is not reported, or a preserving variant that is, makes the thorough run exit 2 (`ANALYSIS-ERROR: self-test`),
never a VIOLATION.  A site that the current tree no longer contains is skipped and listed (the self-test never alarms because a seeding
site moved)."""
from __future__ import annotations
import ast, importlib, os, sys, time, copy
from concurrent.futures import ProcessPoolExecutor
from .prog import Program
from .report import Report, REFUTED, UNKNOWN, PROVEN

# ---------------------------------------------------------------------------------------------------- breaking variants
# (property, name, file, old text, new text, rule prefix that must fire)
B = []


def b(pid, name, rel, old, new, rule):
    B.append((pid, name, rel, old, new, rule))


NA = 'Network/NodalAnalysis/node_analysis.py'
BPA = 'Network/NodalAnalysis/bias_point_analysis.py'
SOL = 'Network/NodalAnalysis/solution.py'
SSM = 'Network/NodalAnalysis/state_space_model.py'
LM = 'Network/NodalAnalysis/label_mapping.py'
CT = 'Circuit/transformers.py'
CC = 'Circuit/circuit.py'
CS = 'Circuit/solution.py'
CP = 'Circuit/components.py'
NT = 'Network/transformers.py'
NL = 'Network/loaders.py'
NE = 'Network/elements.py'
NN = 'Network/network.py'
DL = 'dump_load.py'
CDL = 'Circuit/dump_load.py'
PF = 'SignalProcessing/periodic_functions.py'
SPS = 'SignalProcessing/state_space_model.py'
SCT = 'SimpleCircuit/CircuitComponentTranslators.py'
SEL = 'SimpleCircuit/Elements.py'
SDS = 'SimpleCircuit/DiagramSolution.py'
SDP = 'SimpleCircuit/DiagramParser.py'
SDL = 'SimpleCircuit/dump_load.py'
DSP = 'SimpleCircuit/Display.py'
UT = 'Utils.py'
SCH = 'SimpleSimulation/schematic.py'
CSS = 'Circuit/state_space_model.py'
CI = 'Circuit/impedance.py'
EQ = 'Network/equivalent_sources.py'

# ---- C01
b('C01', 'B sign flipped at node1', NA, "        if network[voltage_source].node1 == node:\n            return 1", "        if network[voltage_source].node1 == node:\n            return -1", 'R01.sign')
b('C01', 'Q sign flipped at node2', NA, "cs_index[cs]] = 1", "cs_index[cs]] = -1", 'R01.sign')
b('C01', 'voltage = phi2 - phi1', SOL, "        return phi1-phi2", "        return phi2-phi1", 'R01.sign')
b('C01', 'open circuit voltage reversed', BPA, "    return phi1-phi2", "    return phi2-phi1", 'R01.sign')
b('C01', 'passive current uses Y', BPA, "        return self.get_voltage(branch_id)/branch.element.Z", "        return self.get_voltage(branch_id)/branch.element.Y", 'R01.current')
b('C01', 'linear source current sign', BPA, "return - (self.network[branch_id].element.I + ", "return (self.network[branch_id].element.I + ", 'R01.current')
b('C01', 'potentials taken from the tail', BPA, "return self._solution_vector[:self._node_mapping.N]", "return self._solution_vector[-self._node_mapping.N:]", 'R01.space')
b('C01', 'vs currents taken from the head', BPA, "return self._solution_vector[-self._voltage_source_mapping.N:]", "return self._solution_vector[:self._voltage_source_mapping.N]", 'R01.space')
b('C01', 'hstack(B, Y)', NA, "np.vstack((np.hstack((Y, B)), np.hstack((B.T, Z))))", "np.vstack((np.hstack((B, Y)), np.hstack((B.T, Z))))", 'R01')
b('C01', 'vs current read through node map', BPA, "self._voltage_source_currents[self._voltage_source_mapping[branch_id]]", "self._voltage_source_currents[self._node_mapping[branch_id]]", 'R01.space')
b('C01', 'rhs stacked (V, I)', NA, "    return np.hstack((I, V))", "    return np.hstack((V, I))", 'R01')
b('C01', 'off-diagonal sign', NA, "        return -admittance_between(no_voltage_sources_network, i_label, j_label)", "        return admittance_between(no_voltage_sources_network, i_label, j_label)", 'R01.sign')
b('C01', 'reference potential not zero', BPA, "        if node_id == self.network.node_zero_label:\n            return 0", "        if node_id == self.network.node_zero_label:\n            return 1", 'R01.current')
b('C01', 'power without conjugate', SOL, "self.get_current(branch_id).conjugate()", "self.get_current(branch_id)", 'R01.current')
b('C01', 'Is ordered by another map', NA, "    Is = current_source_vector(network, source_mapper=source_mapper)", "    Is = current_source_vector(network, source_mapper=map.alphabetic_voltage_source_mapper)", 'R01.space')
b('C01', 'branches_between in one orientation only', NN, "if set((branch.node1, branch.node2)) == set((node1, node2))]", "if (branch.node1, branch.node2) == (node1, node2)]", 'R01.Y')
b('C01', 'infinite admittances summed', NA, "    return sum(b.element.Y for b in network.branches_connected_to(node) if np.isfinite(b.element.Y))", "    return sum(b.element.Y for b in network.branches_connected_to(node))", 'R01.Y')
b('C01', 'diagonal sums only first terminals', NN, "connected_branches = [branch for branch in self.branches if branch.node1 == node or branch.node2 == node]", "connected_branches = [branch for branch in self.branches if branch.node1 == node]", 'R01.Y')
b('C01', 'ideal voltage sources left in Y', NA, "Network(branches=[b for b in network.branches if not is_ideal_voltage_source(b.element)], node_zero_label=network.node_zero_label)", "Network(branches=[b for b in network.branches], node_zero_label=network.node_zero_label)", 'R01.Y')
b('C01', 'determinant pre-check', BPA, "        try:\n            self._solution_vector = np.linalg.solve(A, b)", "        try:\n            if abs(np.linalg.det(A)) < 1e-9:\n                raise np.linalg.LinAlgError\n            self._solution_vector = np.linalg.solve(A, b)", 'R01.solve')
# ---- C02
b('C02', 'capacitor w/C', CT, "elm.admittance_value(B=w*C)", "elm.admittance_value(B=w/C)", 'R02.immittance')
b('C02', 'capacitor as conductance', CT, "elm.admittance_value(B=w*C)", "elm.admittance_value(G=w*C)", 'R02.immittance')
b('C02', 'inductor as resistance', CT, "elm.impedance_value(X=w*L)", "elm.impedance_value(R=w*L)", 'R02.immittance')
b('C02', 'cos/sin swapped in phasor', NE, "    return X*complex(np.cos(phi), np.sin(phi))", "    return X*complex(np.sin(phi), np.cos(phi))", 'R02.phasor')
b('C02', 'gate > becomes <', CT, "    if np.abs(w-float(voltage_source.value['w'])) > w_resolution:\n        element = elm.short_circuit(voltage_source.id)\n    return ntw.Branch(\n        voltage_source.nodes[0],\n        voltage_source.nodes[1],\n        element)\n\ndef ac_voltage", "    if np.abs(w-float(voltage_source.value['w'])) < w_resolution:\n        element = elm.short_circuit(voltage_source.id)\n    return ntw.Branch(\n        voltage_source.nodes[0],\n        voltage_source.nodes[1],\n        element)\n\ndef ac_voltage", 'R02.gate')
b('C02', 'gate >= in ac current source', CT, "    cs_phi = float(current_source.value['phi'])\n    element = elm.current_source(current_source.id, elm.complex_value(cs_I, cs_phi), elm.complex_value(cs_G))\n    if np.abs(w-cs_w) > w_resolution:", "    cs_phi = float(current_source.value['phi'])\n    element = elm.current_source(current_source.id, elm.complex_value(cs_I, cs_phi), elm.complex_value(cs_G))\n    if np.abs(w-cs_w) >= w_resolution:", 'R02.gate')
b('C02', 'inactive current source shorted', CT, "    if np.abs(w-cs_w) > w_resolution:\n        element = elm.open_circuit(current_source.id)\n    return ntw.Branch(\n        current_source.nodes[0],\n        current_source.nodes[1],\n        element\n    )\n\ndef ac_current", "    if np.abs(w-cs_w) > w_resolution:\n        element = elm.short_circuit(current_source.id)\n    return ntw.Branch(\n        current_source.nodes[0],\n        current_source.nodes[1],\n        element\n    )\n\ndef ac_current", 'R02.gate')
b('C02', 'rms divides by 2', CS, "        return self._solution.get_voltage(component_id)/np.sqrt(2)", "        return self._solution.get_voltage(component_id)/2", 'R02.rms')
b('C02', 'peak branches swapped', CS, "        if self.peak_values:\n            return self._solution.get_current(component_id)\n        return self._solution.get_current(component_id)/np.sqrt(2)", "        if not self.peak_values:\n            return self._solution.get_current(component_id)\n        return self._solution.get_current(component_id)/np.sqrt(2)", 'R02.rms')
b('C02', 'dc takes imaginary part', CS, "        return self._solution.get_potential(node_id).real", "        return self._solution.get_potential(node_id).imag", 'R02.rms')
b('C02', 'complex solution built at w=0', CS, "        network = transform(self.circuit, w=[self.w])[0]", "        network = transform(self.circuit, w=[0])[0]", 'R02.rms')
b('C02', 'ac phase ignored', CT, "elm.complex_value(vs_V, vs_phi)", "elm.complex_value(vs_V, 0)", 'R02.phasor')
b('C02', 'lamp uses V_ref not squared', NE, "Y=complex(P, Q)/V_ref**2", "Y=complex(P, Q)/V_ref", 'R02.immittance')
b('C02', 'conductance as resistance', CT, "elm.conductor(conductance.id, G)", "elm.resistor(conductance.id, G)", 'R02.immittance')
b('C02', 'complex source imaginary part dropped', CT, "        float(voltage_source.value['V_imag'])\n", "        0*float(voltage_source.value['V_imag'])\n", 'R02.phasor')
# ---- C03
b('C03', 'QS through current-source map', SSM, "QS = Q[:,[source_mapping_all[l] for l in source_mapping_all if l not in l_values]]", "QS = Q[:,[voltage_source_mapping_all[l] for l in source_mapping_all if l not in l_values]]", 'R03.space')
b('C03', 'merged map sorted again', LM, "sorted(current_source_labels)+sorted(voltage_source_labels)", "sorted(current_source_labels+voltage_source_labels)", 'R03.space')
b('C03', 'QL in source-map order', SSM, "QL = Q[:,[source_mapping_all[l] for l in l_values]]", "QL = Q[:,[source_mapping_all[l] for l in source_mapping_all if l in l_values]]", 'R03.space')
b('C03', 'literal reference label', LM, "if label != network.node_zero_label]", "if label != '0']", 'R03')
b('C03', 'capacitor index from l_values', SSM, "            idx = list(self.c_values.keys()).index(branch_id)\n            return self.c_values[branch_id]*self.A[idx][:]", "            idx = list(self.l_values.keys()).index(branch_id)\n            return self.c_values[branch_id]*self.A[idx][:]", 'R03.space')
b('C03', 'vs row without node offset', SSM, "return self.D[self.voltage_source_index_mapping[branch_id]+self.node_index_mapping.N][:]", "return self.D[self.voltage_source_index_mapping[branch_id]][:]", 'R03.space')
b('C03', 'sources: voltage first', SSM, "        return current_sources+voltage_sources", "        return voltage_sources+current_sources", 'R03.space')
b('C03', 'Delta column by enumerate position', SSM, "Delta[k][node_mapping(i_label)] = +1", "Delta[node_mapping(i_label)][k] = +1", 'R03.space')
b('C03', 'Delta antisymmetry lost', SSM, "                    Delta[k][node_mapping(i_label)] = -1", "                    Delta[k][node_mapping(i_label)] = +1", 'R03.antisym')
b('C03', 'inputs iterate the user dict', CS, "for input_id in self._ssm.sources]", "for input_id in self.input]", 'R03.space')
b('C03', 'node mapper drops the filter', LM, "node_labels_without_zero = [label for label in sorted(network.node_labels) if label != network.node_zero_label] ", "node_labels_without_zero = [label for label in sorted(network.node_labels)] ", 'R0')
# ---- C04
b('C04', 'zeroed voltage source keeps Y', NT, "impedance(branch.element.name, branch.element.Z)", "impedance(branch.element.name, branch.element.Y)", 'R04.zeroing')
b('C04', 'zeroed current source becomes impedance', NT, "admittance(branch.element.name, branch.element.Y)", "impedance(branch.element.name, branch.element.Y)", 'R04.zeroing')
b('C04', 'terminals swapped in rebuilt branch', NT, "Branch(branch.node1, branch.node2, impedance(", "Branch(branch.node2, branch.node1, impedance(", 'R04.zeroing')
b('C04', 'keep test inverted', NT, "        if branch.element in keep:\n            return False\n        if is_voltage_source", "        if branch.element not in keep:\n            return False\n        if is_voltage_source", 'R04.zeroing')
b('C04', 'keep not forwarded in passive_network', NT, "remove_ideal_current_sources(network, keep=keep), keep=keep)", "remove_ideal_current_sources(network), keep=keep)", 'R04.keep')
b('C04', 'keep dropped in remove_ideal_voltage_sources', NT, "remove_short_circuit_elements(short_circuitify_voltage_sources(network, keep=keep), keep=keep)", "remove_short_circuit_elements(short_circuitify_voltage_sources(network, keep=keep))", 'R04.keep')
b('C04', 'matrix reads source current', NA, "    return sum(b.element.Y for b in network.branches_connected_to(node) if np.isfinite(b.element.Y))", "    return sum(b.element.Y + 0*b.element.I for b in network.branches_connected_to(node) if np.isfinite(b.element.Y))", 'R04.rhs')
b('C04', 'zeroing drops reference label', NT, "        branches=[zero_in_current(b) if is_intended_current_source(b) else b for b in network.branches],\n        node_zero_label=network.node_zero_label\n", "        branches=[zero_in_current(b) if is_intended_current_source(b) else b for b in network.branches]\n", 'R04.zeroing')
b('C04', 'renamed element', NT, "admittance(branch.element.name, branch.element.Y)", "admittance(branch.element.name + '_0', branch.element.Y)", 'R04.zeroing')
# ---- C05
b('C05', 'network power conj on voltage', SOL, "return self.get_voltage(branch_id)*self.get_current(branch_id).conjugate()", "return self.get_voltage(branch_id).conjugate()*self.get_current(branch_id)", 'R05')
b('C05', 'peak factor 2', CS, "            return 1/2*self.get_voltage(component_id)*np.conj(self.get_current(component_id))", "            return 2*self.get_voltage(component_id)*np.conj(self.get_current(component_id))", 'R05')
b('C05', 'rms power without conj', CS, "        return self.get_voltage(component_id)*np.conj(self.get_current(component_id))\n\n@dataclass\nclass TimeDomain", "        return self.get_voltage(component_id)*self.get_current(component_id)\n\n@dataclass\nclass TimeDomain", 'R05')
b('C05', 'transient power series index', CS, "self.get_voltage(component_id)[1]*self.get_current(component_id)[1]", "self.get_voltage(component_id)[0]*self.get_current(component_id)[1]", 'R05')
b('C05', 'dc power of two different quantities', CS, "        return self.get_voltage(component_id)*self.get_current(component_id)\n\n@dataclass\nclass ComplexSolution", "        return self.get_voltage(component_id)*self.get_voltage(component_id)\n\n@dataclass\nclass ComplexSolution", 'R05')
b('C05', 'instantaneous power squared voltage', CS, "        return lambda t: np.array(voltage(t))*np.array(current(t))", "        return lambda t: np.array(voltage(t))*np.array(voltage(t))", 'R05')
b('C05', 'frequency-domain power from voltage', CS, "        power = np.array([solution.get_power(component_id) for solution in self._solutions])", "        power = np.array([solution.get_voltage(component_id) for solution in self._solutions])", 'R05')
# ---- C06
b('C06', 'nodal matrix without source shorting', NA, "    Y = nodal_analysis_coefficient_matrix(network, node_mapper=node_index_mapper)\n    i1", "    Y = node_admittance_matrix(network, node_index_mapper=node_index_mapper)\n    i1", 'R06.typestate')
b('C06', 'node index from the original network', NA, "    network = trf.switch_ground_node(network=network, new_ground=node2)\n    Y = nodal_analysis_coefficient_matrix(network, node_mapper=node_index_mapper)\n    i1 = node_index_mapper(network)[node1]", "    network2 = trf.switch_ground_node(network=network, new_ground=node2)\n    Y = nodal_analysis_coefficient_matrix(network2, node_mapper=node_index_mapper)\n    i1 = node_index_mapper(network)[node1]", 'R06.space')
b('C06', 'unpruned index after pruning', NA, "    return Z[retained_columns.index(i1)][retained_rows.index(i1)]", "    return Z[i1][i1]", 'R06.space')
b('C06', 're-referenced to first node', NA, "trf.switch_ground_node(network=network, new_ground=node2)", "trf.switch_ground_node(network=network, new_ground=node1)", 'R06.shape')
b('C06', 'short-circuit current inverted', BPA, "    return V/Z\n", "    return Z/V\n", 'R06.formulas')
b('C06', 'Norton admittance is Z', EQ, "        self.Y = 1/thevenin.Z", "        self.Y = thevenin.Z", 'R06.formulas')
b('C06', 'Norton current is U*Z', EQ, "        self.I = thevenin.U/thevenin.Z", "        self.I = thevenin.U*thevenin.Z", 'R06.formulas')
b('C06', 'element impedance keeps the element', NA, "        network=trf.remove_element(network, element),\n", "        network=network,\n", 'R06.shape')
b('C06', 'element impedance terminals swapped with another', NA, "        node2=network[element].node2,", "        node2=network[element].node1,", 'R06.shape')
b('C06', 'dc resistance imaginary part', CI, "    return open_circuit_impedance(circuit, node1, node2, w=np.array([0]))[0].real", "    return open_circuit_impedance(circuit, node1, node2, w=np.array([0]))[0].imag", 'R06.formulas')
b('C06', 'ideal source check dropped', NA, "    if any([is_ideal_voltage_source(b.element) for b in network.branches_between(node1, node2)]):\n        return 0\n", "", 'R06.shape')
b('C06', 'import from wrong module', EQ, "from .NodalAnalysis.bias_point_analysis import open_circuit_voltage", "from .NodalAnalysis.node_analysis import open_circuit_voltage", 'R0.import')
b('C06', 'rows and columns crossed', NA, "    return Z[retained_columns.index(i1)][retained_rows.index(i1)]", "    return Z[retained_rows.index(i1)][retained_columns.index(i1)]", 'R06.space')
# ---- C07
b('C07', 'table entry removed', CT, "    'capacitor' : capacitor,\n", "", 'R07.exhaustive')
b('C07', 'table entries cross-wired', CT, "    'dc_current_source' : dc_current_source,", "    'dc_current_source' : dc_voltage_source,", 'R07')
b('C07', 'value key renamed in constructor', CP, "        value={'L': L},", "        value={'l': L},", 'R07.keys')
b('C07', 'terminals swapped', CT, "    return ntw.Branch(resistor.nodes[0], resistor.nodes[1], elm.resistor(resistor.id, R))", "    return ntw.Branch(resistor.nodes[1], resistor.nodes[0], elm.resistor(resistor.id, R))", 'R07.identity')
b('C07', 'fixed identifier', CT, "elm.impedance(impedance.id, Z))", "elm.impedance('Z', Z))", 'R07.identity')
b('C07', 'extra filter in traversal', CC, "for component in circuit.components if component.type in transformers.keys()]", "for component in circuit.components if component.type in transformers.keys() and component.id != '']", 'R07.traversal')
b('C07', 'reference from first component always', CC, "            self.ground_node = ground_nodes[0]", "            self.ground_node = self.components[0].nodes[0]", 'R07.traversal')
b('C07', 'harmonic amplitude at n+1', CT, "        V=frequency_properties.amplitude(n),", "        V=frequency_properties.amplitude(n+1),", 'R07.phasor')
b('C07', 'periodic source drops R', CT, "        V=frequency_properties.amplitude(n),\n        R=R\n", "        V=frequency_properties.amplitude(n)\n", 'R07')
b('C07', 'round replaced by floor', CT, "    n = np.round(w/w0)\n    delta_n = np.abs(w/w0 - n)\n    if delta_n > w_resolution/w0:\n        return ntw.Branch(\n            source.nodes[0],\n            source.nodes[1],\n            elm.short_circuit", "    n = np.floor(w/w0)\n    delta_n = np.abs(w/w0 - n)\n    if delta_n > w_resolution/w0:\n        return ntw.Branch(\n            source.nodes[0],\n            source.nodes[1],\n            elm.short_circuit", 'R07')
b('C07', 'w=0 rejected', CP, "def ac_voltage_source(id: str, nodes: tuple[str, str], V: float, R: float = 0, w: float = 0, phi: float = 0) -> Component:\n    if R < 0:\n        raise ValueError('R must be greater than zero.')\n    if w < 0:", "def ac_voltage_source(id: str, nodes: tuple[str, str], V: float, R: float = 0, w: float = 0, phi: float = 0) -> Component:\n    if R < 0:\n        raise ValueError('R must be greater than zero.')\n    if w <= 0:", 'R07')
b('C07', 'second network from w resolution', CC, "    return [transform_circuit(circuit, w_, w_resolution) for w_ in w]", "    return [transform_circuit(circuit, w_resolution, w_) for w_ in w]", 'R07')
# ---- C08
b('C08', 'rect amplitude 2/(n pi)', PF, "        return 4/n/np.pi*self.amplitude0", "        return 2/n/np.pi*self.amplitude0", 'R08.pair')
b('C08', 'tri amplitude 1/n', PF, "        return 8/n/n/np.pi/np.pi*self.amplitude0", "        return 8/n/np.pi/np.pi*self.amplitude0", 'R08.pair')
b('C08', 'saw phase sign', PF, "            return 0\n        return -np.pi/2+n*self.phase0", "            return 0\n        return np.pi/2+n*self.phase0", 'R08.pair')
b('C08', 'rect parity inverted', PF, "        if n%2 == 0:\n            return 0\n        return 4/n", "        if n%2 == 1:\n            return 0\n        return 4/n", 'R08.pair')
b('C08', 'rect duty cycle', PF, "if (t+t0) % self.period < self.period/2 else", "if (t+t0) % self.period < self.period/3 else", 'R08.pair')
b('C08', 'offset and amplitude swapped in cos', PF, "class CosFunctionHarmonics(AbstractHarmonicCoefficients):\n    def _amplitude_coefficient(self, n: int) -> float:\n        if n == 0:\n            return self.offset0\n        if n == 1:\n            return self.amplitude0", "class CosFunctionHarmonics(AbstractHarmonicCoefficients):\n    def _amplitude_coefficient(self, n: int) -> float:\n        if n == 0:\n            return self.amplitude0\n        if n == 1:\n            return self.offset0", 'R08.pair')
b('C08', 'sin phase +pi/2', PF, "            return -np.pi/2+self.phase0", "            return np.pi/2+self.phase0", 'R08.pair')
b('C08', 'b coefficient sign', PF, "        return -self.amplitude(n)*np.sin(self.phase(n))", "        return self.amplitude(n)*np.sin(self.phase(n))", 'R08.abc')
b('C08', 'c(-n) not conjugated', PF, "            return self.amplitude(-n)/2*np.exp(-1j*self.phase(-n))", "            return self.amplitude(-n)/2*np.exp(1j*self.phase(-n))", 'R08.abc')
b('C08', 'phase(-n) not negated', PF, "            return -self._phase_coefficient(-n)", "            return self._phase_coefficient(-n)", 'R08.abc')
b('C08', 'mapping cross-wired', PF, "    TriFunction: TriFunctionHarmonics,\n    SawFunction: SawFunctionHarmonics,", "    TriFunction: SawFunctionHarmonics,\n    SawFunction: TriFunctionHarmonics,", 'R08.pair')
b('C08', 'offset passed as amplitude', PF, "offset0=time_function.offset)", "offset0=time_function.amplitude)", 'R08.lookup')
b('C08', 'duplicate wavetype name', PF, "    wavetype: str = 'tri'", "    wavetype: str = 'saw'", 'R08.lookup')
b('C08', 'cos time function without offset', PF, "self.amplitude*np.cos(2*np.pi/self.period*t + self.phase) + self.offset", "self.amplitude*np.cos(2*np.pi/self.period*t + self.phase)", 'R08.pair')
b('C08', 'tri time function slope', PF, "self.amplitude*(1-4/self.period*mod(t+t0))+self.offset", "self.amplitude*(1-2/self.period*mod(t+t0))+self.offset", 'R08.pair')
b('C08', 'saw without k-independent sign', PF, "        return -2/n/np.pi*self.amplitude0", "        return 2/n/np.pi*self.amplitude0", 'R08.pair')
# ---- C09
b('C09', 'floor becomes ceil', CC, "            n_max = np.floor(w_max/w)", "            n_max = np.ceil(w_max/w)", 'R09.freqs')
b('C09', 'top harmonic lost', CC, "np.arange(n_max+1)]", "np.arange(n_max)]", 'R09.freqs')
b('C09', 'dc component lost', CC, "            return [w*n for n in np.arange(n_max+1)]", "            return [w*n for n in np.arange(1, n_max+1)]", 'R09.freqs')
b('C09', 'not sorted', CC, "    return sorted(list(set([w for c in circuit.components for w in frequencies(c)])))", "    return list(set([w for c in circuit.components for w in frequencies(c)]))", 'R09.freqs')
b('C09', 'cos becomes sin', CS, "np.abs(V)*np.cos(w*t+np.angle(V)) for V, w in zip(voltages, self.w)", "np.abs(V)*np.sin(w*t+np.angle(V)) for V, w in zip(voltages, self.w)", 'R09.time')
b('C09', 'phase dropped', CS, "np.abs(V)*np.cos(w*t+np.angle(V)) for V, w in zip(currents, self.w)", "np.abs(V)*np.cos(w*t) for V, w in zip(currents, self.w)", 'R09.time')
b('C09', 'frequencies reversed in pairing', CS, "for phi, w in zip(potentials, self.w)", "for phi, w in zip(potentials, reversed(self.w))", 'R09.time')
b('C09', 'rms phasors in spectrum', CS, "w=w, peak_values=True)", "w=w, peak_values=False)", 'R09.peak')
b('C09', 'networks for another frequency list', CS, "        networks = transform(self.circuit, w=self.w)", "        networks = transform(self.circuit, w=sorted(self.w, reverse=True))", 'R09.time')
b('C09', 'harmonic phase at another order', CT, "        phi=frequency_properties.phase(n),\n        I=", "        phi=frequency_properties.phase(n-1),\n        I=", 'R09.harmonic')
b('C09', 'currents taken from voltages', CS, "        currents = [solution.get_current(component_id) for solution in self._solutions]", "        currents = [solution.get_voltage(component_id) for solution in self._solutions]", 'R09.time')
# ---- C10
b('C10', 'A multiplied on the right', SSM, "    A = invLambda @ sorted_A_tilde", "    A = sorted_A_tilde @ invLambda", 'R10.formula')
b('C10', 'B sign', SSM, "    B = (-invLambda @ C.T) @ QS", "    B = (invLambda @ C.T) @ QS", 'R10.formula')
b('C10', 'D missing subtraction', SSM, "    D = (inv_A_tilde - transformed_inv_A_tilde.T @ C.T) @ QS", "    D = (inv_A_tilde + transformed_inv_A_tilde.T @ C.T) @ QS", 'R10.formula')
b('C10', 'C without transpose', SSM, "    C = transformed_inv_A_tilde.T @ sorted_A_tilde", "    C = inv_A_tilde @ DQ", 'R10.formula')
b('C10', 'DQ uses QS', SSM, "    DQ = np.hstack((Delta.T, QL))", "    DQ = np.hstack((Delta.T, QS))", 'R10')
b('C10', 'Delta from l_values', SSM, "    Delta = element_incidence_matrix(c_values)", "    Delta = element_incidence_matrix(l_values)", 'R10')
b('C10', 'd_row paired with C', SSM, "        return self._row_for_potential(node_id, self.D)", "        return self._row_for_potential(node_id, self.C)", 'R10.rows')
b('C10', 'wrapper stacks d rows of currents under voltages', CSS, "    for id in voltage_ids:\n        D = np.vstack([D, ssm.d_row_voltage(id)])", "    for id in voltage_ids:\n        D = np.vstack([D, ssm.d_row_current(id)])", 'R10')
b('C10', 'capacitor current row uses B for C', SSM, "            return self.c_values[branch_id]*self.A[idx][:]", "            return self.c_values[branch_id]*self.B[idx][:]", 'R10')
b('C10', 'model gets swapped dictionaries', SSM, "        c_values=c_values,\n        l_values=l_values,\n        node_index_mapping", "        c_values=l_values,\n        l_values=c_values,\n        node_index_mapping", 'R10')
b('C10', 'current-source feedthrough through vs map', SSM, "            d_row[self.current_source_index_mapping[branch_id]] = 1", "            d_row[self.voltage_source_index_mapping[branch_id]] = 1", 'R10.space')
b('C10', 'complex matrix kept', SSM, "    A_tilde = nodal_analysis_coefficient_matrix(network).real", "    A_tilde = nodal_analysis_coefficient_matrix(network).imag", 'R10.wiring')
# ---- C11
b('C11', 'capacitor sign lost', SSM, "np.diag([-C for C in c_values.values()])", "np.diag([C for C in c_values.values()])", 'R11.lambda')
b('C11', 'inductor sign flipped', SSM, "np.diag([L for L in l_values.values()])", "np.diag([-L for L in l_values.values()])", 'R11.lambda')
b('C11', 'Lambda blocks swapped', SSM, "np.diag([-C for C in c_values.values()]), np.zeros((len(c_values), len(l_values)))", "np.zeros((len(c_values), len(l_values))), np.diag([-C for C in c_values.values()])", 'R11.lambda')
b('C11', 'no reciprocal', SSM, "    invLambda = np.diag([1/L for L in np.diag(Lambda)])", "    invLambda = np.diag([L for L in np.diag(Lambda)])", 'R11.lambda')
b('C11', 'non-zero initial state', CS, "            np.zeros((self._ssm.A.shape[0], 1))\n", "            np.ones((self._ssm.A.shape[0], 1))\n", 'R11.rest')
b('C11', 'lsim with initial state of ones', SPS, "    return scipy.signal.lsim(sys, y, t)", "    return scipy.signal.lsim(sys, y, t, X0=np.ones(ssm.A.shape[0]))", 'R11.rest')
b('C11', 'inductances read from c_values', SSM, "np.diag([L for L in l_values.values()])", "np.diag([L for L in c_values.values()])", 'R11.lambda')
# ---- C12
b('C12', 'capacitors read L', CS, "C_values = {c.id: float(c.value['C']) for c in self.circuit.components if c.type == 'capacitor'}", "C_values = {c.id: float(c.value['L']) for c in self.circuit.components if c.type == 'capacitor'}", 'R12.wiring')
b('C12', 'model at another frequency', CS, "        network = transform(self.circuit, w=[0])[0]\n\n", "        network = transform(self.circuit, w=[1])[0]\n\n", 'R12.wiring')
b('C12', 'voltage rows paired with current feedthrough', CS, "self._ssm.c_row_voltage(component_id)@self._x + self._ssm.d_row_voltage(component_id)@self._u", "self._ssm.c_row_voltage(component_id)@self._x + self._ssm.d_row_current(component_id)@self._u", 'R12.wiring')
b('C12', 'inputs not transposed', CS, "            self._u.T,\n", "            self._u,\n", 'R12')
b('C12', 'B and C swapped in StateSpace', SPS, "scipy.signal.StateSpace(ssm.A, ssm.B, ssm.C, ssm.D)", "scipy.signal.StateSpace(ssm.A, ssm.C, ssm.B, ssm.D)", 'R12.wiring')
b('C12', 'time and input swapped in lsim', SPS, "scipy.signal.lsim(sys, y, t)", "scipy.signal.lsim(sys, t, y)", 'R12.wiring')
b('C12', 'inductors keyed as capacitors', CS, "if c.type == 'inductance'}", "if c.type == 'capacitor'}", 'R12.wiring')
b('C12', 'states multiplied with d row', CS, "self._ssm.c_row_current(component_id)@self._x + self._ssm.d_row_current(component_id)@self._u", "self._ssm.d_row_current(component_id)@self._x + self._ssm.c_row_current(component_id)@self._u", 'R12')
b('C12', 'feedthrough of the solver model not zero', CS, "D=np.zeros((self._ssm.A.shape[0], self._ssm.B.shape[1]))", "D=np.ones((self._ssm.A.shape[0], self._ssm.B.shape[1]))", 'R12.wiring')
b('C12', 'other id in feedthrough', CS, "self._ssm.c_row_for_potential(node_id)@self._x + self._ssm.d_row_for_potential(node_id)@self._u", "self._ssm.c_row_for_potential(node_id)@self._x + self._ssm.d_row_for_potential(self.circuit.ground_node)@self._u", 'R12.wiring')
# ---- C13
b('C13', 'map entry removed', SCT, "    elm.Capacitor : capacitor_translator,\n", "", 'R13.table')
b('C13', 'reversal only on nodes', SCT, "        V=element.V if not element.is_reverse else -element.V,\n        w=element.w,\n        phi=element.phi*pi/180 if element.deg else element.phi\n    )\n\ndef ac_current", "        V=element.V,\n        w=element.w,\n        phi=element.phi*pi/180 if element.deg else element.phi\n    )\n\ndef ac_current", 'R13.reverse')
b('C13', 'ternary branches swapped', SCT, "        I=element.I.real if not element.is_reverse else -element.I.real\n    )", "        I=-element.I.real if not element.is_reverse else element.I.real\n    )", 'R13.reverse')
b('C13', 'V read for a current source', SCT, "        I=element.I if not element.is_reverse else -element.I\n    )\n\ndef ac_voltage", "        I=element.V if not element.is_reverse else -element.I\n    )\n\ndef ac_voltage", 'R13.reverse')
b('C13', 'degree conversion inverted', SCT, "        phi=element.phi*pi/180 if element.deg else element.phi\n    )\n\ndef rect_current", "        phi=element.phi if element.deg else element.phi*pi/180\n    )\n\ndef rect_current", 'R13.deg')
b('C13', 'conversion factor 360', SCT, "        phi=element.phi*pi/180 if element.deg else element.phi\n    )\n\ndef tri_current", "        phi=element.phi*pi/360 if element.deg else element.phi\n    )\n\ndef tri_current", 'R13.deg')
b('C13', 'wrong waveform', SCT, "        wavetype=SawFunction.wavetype,\n        V=", "        wavetype=TriFunction.wavetype if False else 'tri',\n        V=", 'R13.table')
b('C13', 'capacitor takes L', SCT, "ccp.capacitor(nodes=(nodes[0], nodes[1]), id=element.name, C=element.C)", "ccp.capacitor(nodes=(nodes[0], nodes[1]), id=element.name, C=element.L)", 'R13.table')
b('C13', 'class stores V without reversal', SEL, "class TriangleVoltageSource(schemdraw.elements.SourceTriangle):\n    def __init__(self, V: float, w: float, phi: float, name: str, *args, sin=False, deg=False, reverse=False, **kwargs):\n        super().__init__(*args, reverse=not reverse, **kwargs)\n        self._V = V if not reverse else -V", "class TriangleVoltageSource(schemdraw.elements.SourceTriangle):\n    def __init__(self, V: float, w: float, phi: float, name: str, *args, sin=False, deg=False, reverse=False, **kwargs):\n        super().__init__(*args, reverse=not reverse, **kwargs)\n        self._V = V", 'R13.reverse')
b('C13', 'rounding digits differ', SEL, "    return schemdraw.util.Point((local_round(node.x), local_round(node.y)))", "    return schemdraw.util.Point((local_round(node.x), round(node.y, ndigits=3)))", 'R13.round')
b('C13', 'unrounded anchor read', SDP, "nodes = nodes.union({elm.round_node(e.absanchors['end']) for e in self.line_elements})", "nodes = nodes.union({e.absanchors['end'] for e in self.line_elements})", 'R13.round')
b('C13', 'labelled wires conduct as wires', SDP, "return [e for e in self.all_elements if type(e) is elm.Line]", "return [e for e in self.all_elements if isinstance(e, elm.Line)]", 'R13.round')
b('C13', 'switch closed resistance', SCT, "R=1e-12)", "R=1e12)", 'R13.round')
b('C13', 'id from type', SCT, "    return ccp.inductance(nodes=(nodes[0], nodes[1]), id=element.name, L=element.L)", "    return ccp.inductance(nodes=(nodes[0], nodes[1]), id=element.type, L=element.L)", 'R13.table')
b('C13', 'ground label bypasses the map', SDP, "        return self._get_node_index(self.ground)", "        return self.node_label_mapping[self.ground]", 'R13.round')
b('C13', 'one-directional wire closure', SDP, "                elif n2 in equal_electrical_potential_nodes:\n                    equal_electrical_potential_nodes.add(n1)", "                elif n2 in equal_electrical_potential_nodes:\n                    pass", 'R13.round')
# ---- C14
b('C14', 'sign ignored for current', SDS, "        return dsp.print_real(sign*self.solution.get_current(name), unit='A', precision=self.precision)", "        return dsp.print_real(self.solution.get_current(name), unit='A', precision=self.precision)", 'R14.sign')
b('C14', 'sign inverted', SDS, "        sign = -1 if reverse else 1\n        return dsp.print_complex(\n            value=sign*self.solution.get_voltage(name),", "        sign = 1 if reverse else -1\n        return dsp.print_complex(\n            value=sign*self.solution.get_voltage(name),", 'R14.sign')
b('C14', 'voltage printed from current', SDS, "            value=sign*self.solution.get_voltage(name),\n            unit='V',\n            precision=self.precision,\n            polar=self.polar,", "            value=sign*self.solution.get_current(name),\n            unit='V',\n            precision=self.precision,\n            polar=self.polar,", 'R14')
b('C14', 'wrong unit', SDS, "            value=sign*self.solution.get_current(name),\n            unit='A',\n            precision=self.precision,\n            w=self.solution.w,", "            value=sign*self.solution.get_current(name),\n            unit='V',\n            precision=self.precision,\n            w=self.solution.w,", 'R14.pair')
b('C14', 'potential gets a sign', SDS, "        return dsp.print_real(self.solution.get_potential(name), unit='V', precision=self.precision)", "        return dsp.print_real(-self.solution.get_potential(name), unit='V', precision=self.precision)", 'R14.sign')
b('C14', 'degree option not forwarded', SDS, "            polar=self.polar,\n            deg=self.deg\n        )\n\n    def get_current", "            polar=self.polar,\n            deg=False\n        )\n\n    def get_current", 'R14.pair')
b('C14', 'draw_voltage asks for the other direction', SDS, "vlabel = self.solution.get_voltage(name=name, reverse=reverse)", "vlabel = self.solution.get_voltage(name=name, reverse=not reverse)", 'R14.draw')
b('C14', 'draw_power of another element', SDS, "plabel = self.solution.get_power(name=name, reverse=reverse)", "plabel = self.solution.get_power(name=element.name + '', reverse=reverse)", 'R14.draw')
b('C14', 'frequency not forwarded to the solution', SDS, "        solution=ComplexSolution(circuit=circuit_translator(schematic), w=w),\n        deg=deg,\n        polar=polar,", "        solution=ComplexSolution(circuit=circuit_translator(schematic)),\n        deg=deg,\n        polar=polar,", 'R14.draw')
b('C14', 'kilo prefix letter', DSP, "exp_prefixes={-6: 'u', -3: 'm', 3: 'k'},\n        compact=True", "exp_prefixes={-6: 'u', -3: 'm', 3: 'K'},\n        compact=True", 'R14.si')
b('C14', 'frequency w forwarded from the wrong field', SDS, "            w=self.solution.w,\n            sin=self.sin,\n            deg=self.deg,\n            hertz=self.hertz\n        )\n\n    def get_current", "            w=self.precision,\n            sin=self.sin,\n            deg=self.deg,\n            hertz=self.hertz\n        )\n\n    def get_current", 'R14.pair')
# ---- C15
b('C15', 'loader key builds another class', SDL, "'conductance' : lambda **kwargs: simple_circuit_elements.Conductance(**kwargs),", "'conductance' : lambda **kwargs: simple_circuit_elements.Resistor(**kwargs),", 'R15.types')
b('C15', 'loader key misspelt', SDL, "    'inductance' : lambda **kwargs", "    'inductor' : lambda **kwargs", 'R15.types')
b('C15', 'value key renamed in components', CP, "        value={'C': C},", "        value={'Cap': C},", 'R15.values')
b('C15', 'complex combination into the wrong name', SDL, "combine_to_complex(('R', 'X'), 'Z', kwargs)", "combine_to_complex(('R', 'X'), 'Y', kwargs)", 'R15.values')
b('C15', 'absanchors not restored', SDL, "    element.absanchors=deserialize_schemdraw_elements(element_dict['values']['absanchors'])\n", "", 'R15.fields')
b('C15', 'anchors restored from absanchors', SDL, "    element.anchors=deserialize_schemdraw_elements(element_dict['values']['anchors'])", "    element.anchors=deserialize_schemdraw_elements(element_dict['values']['absanchors'])", 'R15.fields')
b('C15', 'left calls right', SCH, "    elif direction == 'left':\n        element.left(length*unit)", "    elif direction == 'left':\n        element.right(length*unit)", 'R15.handlers')
b('C15', 'place_after at start', SCH, "    return element.at(origin_element.end)", "    return element.at(origin_element.start)", 'R15.handlers')
b('C15', 'handler builds another class', SCH, "    'capacitor': lambda kwargs: element_factory(elm.Capacitor, **kwargs),", "    'capacitor': lambda kwargs: element_factory(elm.Inductance, **kwargs),", 'R15.handlers')
b('C15', 'reverse flag not saved', SDL, "        reverse=e.is_reverse,", "        reverse=False,", 'R15.fields')
b('C15', 'type string changed in class only', SEL, "        return 'rect_current_source'", "        return 'rectangular_current_source'", 'R15.types')
b('C15', 'values merged by type', SDL, "    if element_dict['name'] in circuit_dict.keys():\n        kwargs.update(circuit_dict[element_dict['name']])", "    if element_dict['type'] in circuit_dict.keys():\n        kwargs.update(circuit_dict[element_dict['type']])", 'R15.fields')
# ---- C16
b('C16', 'in-place removal', NT, "    branches = list(network.branches)\n    branches.remove(network[element])", "    branches = network.branches\n    branches.remove(network[element])", 'R16.pure')
b('C16', 'reference label dropped', NT, "    return Network([b for b in network.branches if not is_open_circuit(b.element)], node_zero_label=network.node_zero_label)", "    return Network([b for b in network.branches if not is_open_circuit(b.element)])", 'R16.thread')
b('C16', 'renamed branch swaps terminals', NT, "        branches = [Branch(b.node1, rn, b.element) if b.node2 == an else b for b in branches]", "        branches = [Branch(rn, b.node1, b.element) if b.node2 == an else b for b in branches]", 'R16.rename')
b('C16', 'reference node may be absorbed', NT, "if not network.is_zero_node(vs.node1) else (vs.node2, vs.node1)", "if network.is_zero_node(vs.node1) else (vs.node2, vs.node1)", 'R16.rename')
b('C16', 'keep list extended in place', NT, "    short_circuits = [b for b in network.branches if is_short_circuit(b.element) and b.element not in keep]", "    keep += []\n    keep.extend(b.element for b in network.branches if False)\n    short_circuits = [b for b in network.branches if is_short_circuit(b.element) and b.element not in keep]", 'R16.pure')
b('C16', 'open removal keeps opens', NT, "if not is_open_circuit(b.element)]", "if is_open_circuit(b.element)]", 'R16.filter')
b('C16', 'self loops kept', NT, "        branches = [b for b in branches if b.node1 != b.node2]", "        branches = [b for b in branches if b.node1 != b.node2 or True]", 'R16.rename')
b('C16', 'exempt elements contracted', NT, "if is_short_circuit(b.element) and b.element not in keep]", "if is_short_circuit(b.element)]", 'R16.rename')
b('C16', 'switch ground keeps old label', NT, "    return Network(network.branches, new_ground)", "    return Network(network.branches, network.node_zero_label)", 'R16.thread')
b('C16', 'contraction loses the element', NT, "        branches = [Branch(rn, b.node2, b.element) if b.node1 == an else b for b in branches]", "        branches = [Branch(rn, b.node2, branches[0].element) if b.node1 == an else b for b in branches]", 'R16.rename')
# ---- C17
b('C17', 'Y passed twice again', NL, "to_complex(kwargs.pop('Y'))", "to_complex(kwargs['Y'])", 'R17.sig')
b('C17', 'entry popped in place', NL, "        entry = dict(entry)\n", "", 'R17.pure')
b('C17', 'degree conversion in place', NL, "        phase = z['phase']*np.pi/180 if degree else z['phase']\n        return z['abs']*complex(np.cos(phase), np.sin(phase))", "        if degree:\n            z['phase'] *= np.pi/180\n        return z['abs']*complex(np.cos(z['phase']), np.sin(z['phase']))", 'R17.pure')
b('C17', 'degree factor inverted', NL, "z['phase']*np.pi/180 if degree", "z['phase']*180/np.pi if degree", 'R17.formula')
b('C17', 'polar sin/cos swapped', NL, "complex(np.cos(phase), np.sin(phase))", "complex(np.sin(phase), np.cos(phase))", 'R17.formula')
b('C17', 'N1/N2 swapped', NL, "        return Branch(n1, n2, element)", "        return Branch(n2, n1, element)", 'R17.sig')
b('C17', 'table factory cross-wired', CDL, '    "dc_current_source" : ccp.dc_current_source,', '    "dc_current_source" : ccp.dc_voltage_source,', 'R17.sig')
b('C17', 'no list recursion when dictifying', DL, "        if isinstance(value, list):\n            return list(dictify_all_complex_values(dict(enumerate(value))).values())\n        return value\n    return dictify_complex_values(", "        return value\n    return dictify_complex_values(", 'R17.sym')
b('C17', 'leaf converter skipped', DL, "    return dictify_complex_values({key: dictify_nested(value) for key, value in data.items()})", "    return {key: dictify_nested(value) for key, value in data.items()}", 'R17.sym')
b('C17', 'phase_deg treated as radians', DL, "            phase_rad = np.deg2rad(value['phase_deg'])", "            phase_rad = value['phase_deg']", 'R17.formula')
b('C17', 'imaginary part negated', DL, "            return complex(value['real'], value['imag'])", "            return complex(value['real'], -value['imag'])", 'R17.formula')
b('C17', 'description mutated by generate_component', CDL, "    component = component.copy()\n", "", 'R17')
b('C17', 'unknown type mapped to default', CDL, "    except KeyError:\n        raise UnknownCircuitComponent(f\"Unknown type '{component_type}' of component '{component_id}' is unknown.\")", "    except KeyError:\n        component_factory = ccp.resistor", 'R17.errors')
b('C17', 'undictify writes in place', DL, "    return {key: undictify(key, value) for key, value in data.items()}", "    for key, value in data.items():\n        data[key] = undictify(key, value)\n    return data", 'R17.pure')
# ---- C18
b('C18', 'micro letter', UT, "        -6 : 'u',\n        -3 : 'm',\n        -1 : 'c',\n        3 : 'k',\n        6 : 'M',\n        9 : 'G',\n        12 : 'T'\n    })\n\n    @property\n    def value3", "        -6 : 'm',\n        -3 : 'm',\n        -1 : 'c',\n        3 : 'k',\n        6 : 'M',\n        9 : 'G',\n        12 : 'T'\n    })\n\n    @property\n    def value3", 'R18.tables')
b('C18', 'giga key moved', DSP, "exp_prefixes={-3: 'm', 3: 'k', 6: 'M', 9: 'G'}, precision=precision))\n\ndef print_conductance", "exp_prefixes={-3: 'm', 3: 'k', 6: 'M', 8: 'G'}, precision=precision))\n\ndef print_conductance", 'R18.tables')
b('C18', 'exponent3 step 2', UT, "        return int(3*np.floor((self.precision + self.exponent - 1)/3))", "        return int(2*np.floor((self.precision + self.exponent - 1)/2))", 'R18.exp3')
b('C18', 'exponent3 ceil', UT, "        return int(3*np.floor((self.precision + self.exponent - 1)/3))", "        return int(3*np.ceil((self.precision + self.exponent - 1)/3))", 'R18.exp3')
b('C18', 'mantissa3 exponent sign', UT, "        return self.mantissa * 10**(self.exponent-self.exponent3)", "        return self.mantissa * 10**(self.exponent3-self.exponent)", 'R18.exp3')
b('C18', 'real sign for non-negative', UT, "        sign = '' if self.value.real >= 0 else '- '", "        sign = '' if self.value.real <= 0 else '- '", 'R18.glyph')
b('C18', 'imag sign glyphs swapped', UT, "        sign = ' + ' if self.value.imag >= 0 else ' - '", "        sign = ' - ' if self.value.imag >= 0 else ' + '", 'R18.glyph')
b('C18', 'real part rendered signed', UT, "        return ScientificFloat(abs(self.value.real), self.unit,", "        return ScientificFloat(self.value.real, self.unit,", 'R18.glyph')
b('C18', 'saturation tested last', UT, "        if self.value3.is_inf:\n            return '∞' if self.value3.mantissa >= 0 else '-∞'\n        pre_decimal_positions", "        pre_decimal_positions", 'R18.inf')
b('C18', 'is_inf compares with min_exp', UT, "        return self.exponent > self.max_exp", "        return self.exponent > self.min_exp", 'R18.inf')
b('C18', 'capacitance unit', DSP, "unit='F', use_exp_prefix=True", "unit='H', use_exp_prefix=True", 'R18.tables')
# ---- C19
b('C19', 'guard deleted', CP, "def capacitor(id: str, nodes: tuple[str, str], C: float) -> Component:\n    if C < 0:\n        raise ValueError('C must be greater than zero.')\n", "def capacitor(id: str, nodes: tuple[str, str], C: float) -> Component:\n", 'R19.guard')
b('C19', 'guard on another variable', CP, "def lamp(id: str, nodes: tuple[str, str], P: float, V_ref: float) -> Component:\n    if P < 0:\n        raise ValueError('P must be greater than zero.')\n    if V_ref < 0:", "def lamp(id: str, nodes: tuple[str, str], P: float, V_ref: float) -> Component:\n    if P < 0:\n        raise ValueError('P must be greater than zero.')\n    if P < 0:", 'R19.guard')
b('C19', 'guard threshold', CP, "def inductance(id: str, nodes: tuple[str, str], L: float) -> Component:\n    if L < 0:", "def inductance(id: str, nodes: tuple[str, str], L: float) -> Component:\n    if L < -1e-9:", 'R19.guard')
b('C19', 'guard only for some ids', CP, "def resistor(id: str, nodes: tuple[str, str], R: float) -> Component:\n    if R < 0:", "def resistor(id: str, nodes: tuple[str, str], R: float) -> Component:\n    if R < 0 and not id.startswith('_'):", 'R19.guard')
b('C19', 'raise replaced by clamping', CP, "def conductance(id: str, nodes: tuple[str, str], G: float) -> Component:\n    if G < 0:\n        raise ValueError('G must be greater than zero.')", "def conductance(id: str, nodes: tuple[str, str], G: float) -> Component:\n    if G < 0:\n        G = 0", 'R19.guard')
b('C19', 'duplicate ids compare with <=', NN, "        if len(set(self.branch_ids)) != len(self.branches):\n            raise AmbiguousBranchIDs", "        if len(set(self.branch_ids)) > len(self.branches):\n            raise AmbiguousBranchIDs", 'R19.invariants')
b('C19', 'floating ground tolerated', NN, "        if self.node_zero_label not in self.node_labels and self.number_of_nodes != 0:\n            raise FloatingGroundNode", "        if self.node_zero_label not in self.node_labels and self.number_of_nodes > 2:\n            raise FloatingGroundNode", 'R19.invariants')
b('C19', 'multiple grounds tolerated up to two', CC, "        if len(ground_nodes) > 1:", "        if len(ground_nodes) > 2:", 'R19.invariants')
b('C19', 'duplicate check skipped with a ground', CC, "            self.ground_node = ground_nodes[0]\n        if len(set(", "            self.ground_node = ground_nodes[0]\n            return\n        if len(set(", 'R19.invariants')
b('C19', 'unknown kind defaults', NL, "        element_factory = network_branch_translators[entry.pop('type')]", "        element_factory = network_branch_translators.get(entry.pop('type'), elm.resistor)", 'R19.miss')
b('C19', 'unknown wavetype falls back', PF, "    except IndexError:\n        raise UnknownWavetype(f'Periodic function of type {wavetype} is unknown.')", "    except IndexError:\n        return CosFunction", 'R19.miss')
b('C19', 'unknown node reads as zero', SSM, "        if self.network.is_zero_node(node_id):\n            return np.zeros((1,matrix.shape[1]))\n        return matrix[:][self.node_index_mapping[node_id]:self.node_index_mapping[node_id]+1]", "        if node_id in self.node_index_mapping:\n            return matrix[:][self.node_index_mapping[node_id]:self.node_index_mapping[node_id]+1]\n        return np.zeros((1,matrix.shape[1]))", 'R19.id')
b('C19', 'unknown potential returns zero', BPA, "        return self._potentials[self._node_mapping[node_id]]", "        return self._potentials[self._node_mapping[node_id]] if node_id in self._node_mapping.keys else 0", 'R19.id')
b('C19', 'load accepts negative reference', NE, "    if I_ref <= 0 and V_ref < 0:", "    if I_ref < -1 and V_ref < 0:", 'R19.load')
b('C19', 'branch ids de-duplicated before the check', NN, "        return [b.id for b in self.branches]", "        return list(dict.fromkeys(b.id for b in self.branches))", 'R19.invariants')
# ---- C20
b('C20', 'global cache written', NA, "    return Q@Is\n\ndef nodal_analysis_constants_vector(", "    return _remember(network, Q@Is)\n\n_Y_CACHE = {}\n\ndef _remember(network, Y):\n    _Y_CACHE[id(network)] = Y\n    return Y\n\ndef nodal_analysis_constants_vector(", 'R20.global')
b('C20', 'lru_cache on a transformer', CC, "def w(f: float) -> float:", "import functools\n@functools.lru_cache(maxsize=None)\ndef w(f: float) -> float:", 'R20.global')
b('C20', 'default dict written', SSM, "    Delta = element_incidence_matrix(c_values)", "    c_values.setdefault('_n', 0)\n    Delta = element_incidence_matrix(c_values)", 'R20')
b('C20', 'keep default appended', NT, "    def zero_in_voltage(branch: Branch) -> Branch:", "    keep.append(None)\n    def zero_in_voltage(branch: Branch) -> Branch:", 'R20')
b('C20', 'solution caches on first query', CS, "    def get_voltage(self, component_id: str) -> float:\n        return self._solution.get_voltage(component_id).real", "    def get_voltage(self, component_id: str) -> float:\n        self._last = component_id\n        return self._solution.get_voltage(component_id).real", 'R20.self')
b('C20', 'component value dict edited by a translator', CT, "    R = float(resistor.value['R'])\n", "    R = float(resistor.value['R'])\n    resistor.value['seen'] = True\n", 'R20.param')
b('C20', 'branch list sorted in place', NN, "        connected_branches = [branch for branch in self.branches if branch.node1 == node or branch.node2 == node]\n        connected_branches.sort(", "        connected_branches = self.branches\n        connected_branches.sort(", 'R20')
b('C20', 'frequency list default extended', CC, "    return [transform_circuit(circuit, w_, w_resolution) for w_ in w]", "    w.append(0)\n    return [transform_circuit(circuit, w_, w_resolution) for w_ in w]", 'R20')
b('C20', 'input dict popped by transient solution', CS, "        self._u = np.array([self.input[input_id](self.tin) for input_id in self._ssm.sources])", "        self._u = np.array([self.input.pop(input_id)(self.tin) for input_id in self._ssm.sources])", 'R20')
b('C20', 'setattr on frozen network', NT, "    return Network(network.branches, new_ground)", "    object.__setattr__(network, 'node_zero_label', new_ground)\n    return network", 'R20.param')
b('C20', 'module-level registry appended through alias', NL, "def load_network(network_dict: list[dict[str, Any]]) -> Network:", "_loaded = []\n\ndef load_network(network_dict: list[dict[str, Any]]) -> Network:\n    _loaded.append(len(network_dict))", 'R20.global')
B[:] = [x for x in B if x[5] != 'R20x']


# ---------------------------------------------------------------------------------------------------- preserving variants
class _RenameLocals(ast.NodeTransformer):
    """rename every local variable and parameter of every function consistently (keeps keyword-argument names of calls intact by
    only renaming positional-only usage: parameters are renamed only when no call in the package passes them by keyword)"""
    def __init__(self, kw_names):
        self.kw_names = kw_names
        self.stack = []

    def visit_FunctionDef(self, node):
        params = [a.arg for a in node.args.posonlyargs + node.args.args + node.args.kwonlyargs]
        local = set()
        for n in ast.walk(node):
            if isinstance(n, ast.Name) and isinstance(n.ctx, ast.Store): local.add(n.id)
            if isinstance(n, ast.comprehension):
                for x in ast.walk(n.target):
                    if isinstance(x, ast.Name): local.add(x.id)
        nested = {n.name for n in ast.walk(node) if isinstance(n, ast.FunctionDef) and n is not node}
        globals_ = {x for n in ast.walk(node) if isinstance(n, (ast.Global, ast.Nonlocal)) for x in n.names}
        # names bound inside nested functions / lambdas belong to those scopes
        inner_bound = set()
        for n in ast.walk(node):
            if isinstance(n, (ast.FunctionDef, ast.Lambda)) and n is not node:
                for x in ast.walk(n):
                    if isinstance(x, ast.Name) and isinstance(x.ctx, ast.Store): inner_bound.add(x.id)
                    if isinstance(x, ast.arg): inner_bound.add(x.arg)
        ren = {v: v + '_r' for v in local if v not in params and v not in nested and v not in globals_ and v not in inner_bound and not v.startswith('__')}
        for p_ in params: ren[p_] = p_            # parameters shadow any renaming of an enclosing scope
        self.stack.append(ren)
        self.generic_visit(node)
        self.stack.pop()
        return node

    def visit_Lambda(self, node):
        self.stack.append({a.arg: a.arg for a in node.args.args + node.args.kwonlyargs})
        self.generic_visit(node)
        self.stack.pop()
        return node

    def visit_Name(self, node):
        for ren in reversed(self.stack):
            if node.id in ren:
                return ast.copy_location(ast.Name(id=ren[node.id], ctx=node.ctx), node)
        return node


class _Commute(ast.NodeTransformer):
    """a*b -> b*a for products of two non-constant numeric-looking operands (never for strings / lists / matrix products)"""
    def visit_BinOp(self, node):
        self.generic_visit(node)
        if isinstance(node.op, ast.Mult) and not isinstance(node.left, (ast.Constant, ast.List, ast.Tuple, ast.JoinedStr)) and not isinstance(node.right, (ast.Constant, ast.List, ast.Tuple, ast.JoinedStr)):
            if 'np.array' in ast.unparse(node) or "'" in ast.unparse(node): return node
            return ast.copy_location(ast.BinOp(left=node.right, op=node.op, right=node.left), node)
        return node


def _reorder(tree):
    """move every top-level function behind the classes and reverse their order where no module-level statement depends on them;
    reverse the order of methods in classes (properties / dataclass fields untouched)"""
    body = tree.body
    head = [n for n in body if isinstance(n, (ast.Import, ast.ImportFrom))]
    rest = [n for n in body if n not in head]
    # only reorder runs of consecutive function definitions that are not referenced by later module-level assignments in between
    out, run = [], []
    for n in rest:
        if isinstance(n, ast.FunctionDef) and not n.decorator_list: run.append(n)
        else:
            out += list(reversed(run)); run = []; out.append(n)
    out += list(reversed(run))
    for n in out:
        if isinstance(n, ast.ClassDef):
            meths = [m for m in n.body if isinstance(m, ast.FunctionDef)]
            others = [m for m in n.body if not isinstance(m, ast.FunctionDef)]
            n.body = others + list(reversed(meths)) if others or meths else n.body
    tree.body = head + out
    return tree


def _reorder_tables(tree):
    for n in ast.walk(tree):
        if isinstance(n, ast.Dict) and len(n.keys) > 2 and all(isinstance(k, (ast.Constant, ast.Attribute, ast.Name)) for k in n.keys if k is not None) and None not in n.keys:
            n.keys = list(reversed(n.keys)); n.values = list(reversed(n.values))
    return tree


def _annotate(tree):
    for n in ast.walk(tree):
        if isinstance(n, ast.FunctionDef):
            if not (n.body and isinstance(n.body[0], ast.Expr) and isinstance(n.body[0].value, ast.Constant) and isinstance(n.body[0].value.value, str)):
                n.body.insert(0, ast.Expr(ast.Constant('documented')))
            for a in n.args.args:
                if a.annotation is None and a.arg not in ('self', '_', 'cls'): a.annotation = ast.Name(id='object', ctx=ast.Load())
    return tree


class _Hoist(ast.NodeTransformer):
    """P4: `return <expr>` -> `_h = <expr>; return _h` (every function, non-trivial expressions only)"""
    def _body(self, stmts):
        out = []
        for st in stmts:
            if isinstance(st, ast.Return) and st.value is not None and not isinstance(st.value, (ast.Name, ast.Constant)):
                out.append(ast.Assign(targets=[ast.Name(id='_hoisted', ctx=ast.Store())], value=st.value))
                out.append(ast.Return(value=ast.Name(id='_hoisted', ctx=ast.Load())))
            else:
                out.append(st)
        return out

    def visit_FunctionDef(self, node):
        self.generic_visit(node)
        node.body = self._body(node.body)
        return node

    def visit_If(self, node):
        self.generic_visit(node)
        node.body = self._body(node.body); node.orelse = self._body(node.orelse)
        return node


class _TernaryToIf(ast.NodeTransformer):
    """P6a: `return a if c else b` -> if c: return a / return b ;  `x = a if c else b` -> if c: x = a else: x = b"""
    def _body(self, stmts):
        out = []
        for st in stmts:
            if isinstance(st, ast.Return) and isinstance(st.value, ast.IfExp):
                out.append(ast.If(test=st.value.test, body=[ast.Return(value=st.value.body)], orelse=[]))
                out.append(ast.Return(value=st.value.orelse))
            elif isinstance(st, ast.Assign) and isinstance(st.value, ast.IfExp) and len(st.targets) == 1 and isinstance(st.targets[0], ast.Name):
                out.append(ast.If(test=st.value.test, body=[ast.Assign(targets=st.targets, value=st.value.body)], orelse=[ast.Assign(targets=st.targets, value=st.value.orelse)]))
            else:
                out.append(st)
        return out

    def visit_FunctionDef(self, node):
        self.generic_visit(node)
        node.body = self._body(node.body)
        return node


class _CompToLoop(ast.NodeTransformer):
    """P6b: `x = [elt for t in it if c]` (single generator, statement level) -> x = []; for t in it: if c: x.append(elt)"""
    def _body(self, stmts):
        out = []
        for st in stmts:
            if (isinstance(st, ast.Assign) and len(st.targets) == 1 and isinstance(st.targets[0], ast.Name) and isinstance(st.value, ast.ListComp)
                    and len(st.value.generators) == 1 and not st.value.generators[0].is_async):
                g = st.value.generators[0]; nm = st.targets[0].id
                if nm in {n.id for n in ast.walk(st.value) if isinstance(n, ast.Name)}:
                    out.append(st); continue
                app = ast.Expr(ast.Call(func=ast.Attribute(value=ast.Name(id=nm, ctx=ast.Load()), attr='append', ctx=ast.Load()), args=[st.value.elt], keywords=[]))
                body = [app]
                for c in reversed(g.ifs): body = [ast.If(test=c, body=body, orelse=[])]
                out.append(ast.Assign(targets=[ast.Name(id=nm, ctx=ast.Store())], value=ast.List(elts=[], ctx=ast.Load())))
                out.append(ast.For(target=g.target, iter=g.iter, body=body, orelse=[]))
            else:
                out.append(st)
        return out

    def visit_FunctionDef(self, node):
        self.generic_visit(node)
        node.body = self._body(node.body)
        return node


def preserving_variants(sources):
    def apply(fn):
        out = {}
        for rel, src in sources.items():
            try:
                t = fn(ast.parse(src))
                ast.fix_missing_locations(t)
                new = ast.unparse(t)
                compile(new, rel, 'exec')
                out[rel] = new
            except Exception:
                out[rel] = src
        return out
    yield 'P2 re-emit every module with ast.unparse', apply(lambda t: t)
    yield 'P1 rename local variables', apply(lambda t: _RenameLocals(set()).visit(t))
    yield 'P3 reorder functions and methods', apply(_reorder)
    yield 'P3b reorder dispatch-table entries', apply(_reorder_tables)
    yield 'P5 commute products', apply(lambda t: _Commute().visit(t))
    yield 'P8 add docstrings and annotations', apply(_annotate)
    yield 'P4 hoist returned expressions into a local', apply(lambda t: _Hoist().visit(t))
    yield 'P6a conditional expressions to if statements', apply(lambda t: _TernaryToIf().visit(t))
    yield 'P6b comprehensions to accumulate loops', apply(lambda t: _CompToLoop().visit(t))


# ---------------------------------------------------------------------------------------------------- seeded changes as variants
SEED_MISSES = {'C18-1': 'breaks only the clause C18 declares not decided (digit arithmetic of FloatPrecision.exponent)'}


def apply_unified_diff(sources, diff_text):
    """apply a `git diff` to the in-memory sources (exact match of each hunk's old block); returns new sources or None"""
    out = dict(sources)
    cur = None; hunks = {}
    for line in diff_text.splitlines():
        if line.startswith('+++ '):
            path = line[4:].strip()
            path = path[2:] if path.startswith('b/') else path
            cur = path.split('src/CircuitCalculator/', 1)[1] if 'src/CircuitCalculator/' in path else None
            if cur is not None: hunks[cur] = []
        elif line.startswith('@@') and cur is not None:
            hunks[cur].append(([], []))
        elif cur is not None and hunks.get(cur) and not line.startswith(('--- ', 'diff ', 'index ', 'new file', 'deleted file', '\\')):
            old, new = hunks[cur][-1]
            if line.startswith('+'): new.append(line[1:])
            elif line.startswith('-'): old.append(line[1:])
            else:
                old.append(line[1:] if line.startswith(' ') else line); new.append(line[1:] if line.startswith(' ') else line)
    for rel, hs in hunks.items():
        src = out.get(rel)
        if src is None: return None
        for old, new in hs:
            o = '\n'.join(old); n = '\n'.join(new)
            if o and o in src: src = src.replace(o, n, 1)
            elif o.rstrip('\n') in src: src = src.replace(o.rstrip('\n'), n.rstrip('\n'), 1)
            else: return None
        out[rel] = src
    return out


def seed_variants(pid, sources):
    import glob, json
    here = os.path.dirname(os.path.dirname(os.path.abspath(__file__)))
    for d in sorted(glob.glob(os.path.join(here, 'seeded', f'{pid}-*'))):
        name = os.path.basename(d)
        try:
            s2 = apply_unified_diff(sources, open(os.path.join(d, 'patch.diff')).read())
        except OSError:
            continue
        yield name, s2


def refactor_variants(sources):
    """behaviour-preserving rewrites of whole modules written by independent sub-agents (preserving/<name>/patch.diff): each must be judged
    exactly like the unchanged tree -- exit 0"""
    import glob
    here = os.path.dirname(os.path.dirname(os.path.abspath(__file__)))
    for d in sorted(glob.glob(os.path.join(here, 'preserving', '*'))):
        pf = os.path.join(d, 'patch.diff')
        if not os.path.isfile(pf): continue
        yield 'R:' + os.path.basename(d), apply_unified_diff(sources, open(pf).read())


def _one_refactor(args):
    pid, name, s2 = args
    if s2 is None: return (pid, name, 'skipped', 'patch does not apply to the current tree')
    rep = _run_rules(pid, s2)
    code, msgs = rep.judge()
    if code == 0: return (pid, name, 'silent', '')
    return (pid, name, 'FALSE-ALARM' if code == 1 else 'UNDECIDED', (msgs or [''])[0][:200])


def _one_seed(args):
    pid, name, s2 = args
    if s2 is None: return (pid, name, 'skipped', 'patch does not apply to the current tree')
    for rel, src in s2.items():
        try: compile(src, rel, 'exec')
        except SyntaxError as e: return (pid, name, 'skipped', f'does not compile: {e}')
    rep = _run_rules(pid, s2)
    known = {(k.get('rule'), k.get('key')) for k in rep.known}
    hits = [o for o in rep.obs if o['verdict'] == REFUTED and (o['rule'], o['key']) not in known]
    if hits: return (pid, name, 'caught', f"{hits[0]['rule']} {hits[0]['key']}")
    if name in SEED_MISSES: return (pid, name, 'documented-miss', SEED_MISSES[name])
    unk = [o for o in rep.obs if o['verdict'] == UNKNOWN]
    if rep.errors or unk: return (pid, name, 'undecided', (rep.errors + [f"{o['rule']} {o['key']}" for o in unk])[0][:160])
    return (pid, name, 'MISSED', '')


# ---------------------------------------------------------------------------------------------------- runner
def _load_sources(repo_src):
    return Program(repo_src).sources


def _run_rules(pid, sources):
    mod = importlib.import_module(f'cc.rules.{pid.lower()}')
    rep = Report(pid, 'thorough', '<variant>', write=False)
    try:
        prog = Program(root='', sources=sources)
        mod.run(rep, prog, 'quick')
    except Exception as e:                      # an analyser crash on a variant counts as 'not decided', reported by the caller
        rep.error(f'{type(e).__name__}: {e}')
    return rep


def _summ(rep):
    return {(o['rule'], o['key']): o['verdict'] for o in rep.obs}


def _one_breaking(args):
    pid, name, rel, old, new, rule, sources = args
    src = sources.get(rel)
    if src is None or old not in src:
        return (pid, name, 'skipped', 'site not present in the current tree')
    s2 = dict(sources); s2[rel] = src.replace(old, new, 1)
    try:
        compile(s2[rel], rel, 'exec')
    except SyntaxError as e:
        return (pid, name, 'skipped', f'variant does not compile: {e}')
    rep = _run_rules(pid, s2)
    known = {(k.get('rule'), k.get('key')) for k in rep.known}
    hits = [o for o in rep.obs if o['verdict'] == REFUTED and (o['rule'], o['key']) not in known]
    good = [o for o in hits if o['rule'].startswith(rule)]
    if good: return (pid, name, 'caught', f"{good[0]['rule']} {good[0]['key']}")
    if hits: return (pid, name, 'caught-elsewhere', f"{hits[0]['rule']} {hits[0]['key']}")
    unk = [o for o in rep.obs if o['verdict'] == UNKNOWN]
    if rep.errors or unk:
        return (pid, name, 'undecided', (rep.errors + [f"{o['rule']} {o['key']}" for o in unk])[0][:160])
    return (pid, name, 'MISSED', '')


def _one_preserving(args):
    pid, name, sources, base = args
    rep = _run_rules(pid, sources)
    cur = _summ(rep)
    known = {(k.get('rule'), k.get('key')) for k in rep.known}
    new_ref = [k for k, v in cur.items() if v == REFUTED and base.get(k) != REFUTED and k not in known]
    lost = [k for k, v in base.items() if v == PROVEN and cur.get(k) != PROVEN]
    if rep.errors: return (pid, name, 'ERROR', rep.errors[0][:200])
    if new_ref: return (pid, name, 'FALSE-ALARM', f'{new_ref[0]}')
    if lost: return (pid, name, 'LOST', f'{len(lost)} proven instances no longer proven, e.g. {lost[0]}')
    return (pid, name, 'silent', '')


def run_selftest(pid, repo_src, rep, jobs=None):
    """run all variants registered for `pid`; findings go into rep.errors (exit 2), statistics into rep.extra"""
    sources = _load_sources(repo_src)
    base = _summ(_run_rules(pid, sources))
    jobs = jobs or min(16, os.cpu_count() or 4)
    btasks = [(p, n, rel, old, new, rule, sources) for p, n, rel, old, new, rule in B if p == pid]
    ptasks = [(pid, n, s, base) for n, s in preserving_variants(sources)]
    t0 = time.time()
    stasks = [(pid, n, s2) for n, s2 in seed_variants(pid, sources)]
    with ProcessPoolExecutor(max_workers=jobs) as ex:
        bres = list(ex.map(_one_breaking, btasks))
        pres = list(ex.map(_one_preserving, ptasks))
        sres = list(ex.map(_one_seed, stasks))
        rres = list(ex.map(_one_refactor, [(pid, n, s2) for n, s2 in refactor_variants(sources)]))
    pres += [r for r in rres if r[2] != 'skipped']
    rep.extra['selftest_refactors_skipped'] = [r[1] for r in rres if r[2] == 'skipped']
    bres += sres
    stats = {'breaking': len(bres), 'caught': sum(1 for r in bres if r[2] in ('caught', 'caught-elsewhere')), 'skipped': sum(1 for r in bres if r[2] == 'skipped'),
             'undecided': sum(1 for r in bres if r[2] == 'undecided'), 'missed': sum(1 for r in bres if r[2] == 'MISSED'),
             'preserving': len(pres), 'silent': sum(1 for r in pres if r[2] == 'silent'), 'wall_s': round(time.time() - t0, 1)}
    rep.extra['selftest'] = stats
    rep.extra['selftest_breaking'] = [f'{r[1]}: {r[2]} {r[3]}' for r in bres]
    rep.extra['selftest_preserving'] = [f'{r[1]}: {r[2]} {r[3]}' for r in pres]
    for r in bres:
        if r[2] == 'MISSED': rep.error(f"self-test: breaking variant '{r[1]}' is not reported by any rule")
        if r[2] == 'undecided': rep.info(f"self-test: breaking variant '{r[1]}' is undecided, not refuted: {r[3]}")
    for r in pres:
        if r[2] != 'silent': rep.error(f"self-test: preserving variant '{r[1]}' -> {r[2]} {r[3]}")
    rep.count('selftest_variants', len(bres) + len(pres))
    return bres, pres
