"""Entry points of the index-space analysis on normal forms (E4t): evaluates each entry with the term evaluator and types the result."""
from __future__ import annotations
import ast
from ..api import A, call
from ..terms import Evaluator, tkey, Rec, Poly
from ..spacet import Typer, unk
from ..spaces import show, U
from ..prog import params_of

NA = 'Network.NodalAnalysis.node_analysis'
BP = 'Network.NodalAnalysis.bias_point_analysis'
SS = 'Network.NodalAnalysis.state_space_model'
LM = 'Network.NodalAnalysis.label_mapping'
EL = 'Network.elements'
NW = 'Network.network'
TRF = 'Network.transformers'
CSS = 'Circuit.state_space_model'
CS = 'Circuit.solution'
CC = 'Circuit.circuit'


def evaluator(prog, mappers_opaque=True, extra=()):
    ev = Evaluator(prog)
    net = prog.mod(NW); cls = net.defs.get('Network')
    if isinstance(cls, ast.ClassDef):
        mem = prog.find_member(net, cls, 'is_zero_node')
        if mem and isinstance(mem[1], ast.FunctionDef): ev.atom_methods[('network', 'is_zero_node')] = (mem[0], mem[1])
        mem = prog.find_member(net, cls, 'branch_ids')
        if mem and isinstance(mem[1], ast.FunctionDef): ev.atom_methods[('network', 'branch_ids')] = (mem[0], mem[1])
    for nm, d in prog.mod(EL).defs.items():
        if isinstance(d, ast.FunctionDef) and nm.startswith('is_'): ev.opaque_fns.add((EL, nm))
    if mappers_opaque:
        for nm in mapper_names(prog): ev.opaque_fns.add((LM, nm))
    for nm in ('admittance_connected_to', 'admittance_between'): ev.opaque_fns.add((NA, nm))
    for nm, d in prog.mod(TRF).defs.items():
        if isinstance(d, ast.FunctionDef) and not nm.startswith('_'): ev.opaque_fns.add((TRF, nm))
    for q in extra: ev.opaque_fns.add(q)
    return ev


def mapper_names(prog):
    lm = prog.mod(LM)
    return [nm for nm, d in lm.defs.items() if isinstance(d, ast.FunctionDef) and d.returns is not None and 'LabelMapping' in ast.unparse(d.returns)
            and nm != 'filter' and not nm.startswith('_') and len(params_of(d)[0]) == 1]


def mapper_spaces(prog):
    """{mapper function name: space of the map it returns}, typed from the normal form of the mapper itself"""
    cache = prog.__dict__.setdefault('_mapper_spaces_t', None)
    if cache is not None: return cache
    out = {}
    lm = prog.mod(LM)
    for nm in mapper_names(prog):
        ev = evaluator(prog, mappers_opaque=False)
        f = prog.func(LM, nm)
        t = call(ev, f, [A('network')])
        ty = Typer(prog, 'mapper:' + nm, f.site)
        r = ty.ty(tkey(t))
        out[nm] = (('KO', r[1], r[2]) if len(r) > 2 else r[1]) if r[0] == 'map' else U('mapper:' + nm)
    prog.__dict__['_mapper_spaces_t'] = out
    return out


def typer(prog, entry, site, **kw):
    ms = mapper_spaces(prog)
    return Typer(prog, entry, site, mapper_of=lambda name: ms.get(name), **kw)


class Entry:
    def __init__(self, ty): self.ty = ty; self.obs = ty.obs


def analyse(prog):
    if hasattr(prog, '_spaces_t'): return prog._spaces_t
    out = {}
    # ---- MNA assembly
    ev = evaluator(prog)
    f1 = prog.func(NA, 'nodal_analysis_coefficient_matrix'); f2 = prog.func(NA, 'nodal_analysis_constants_vector')
    ty = typer(prog, 'mna', f1.site)
    e = Entry(ty); out['mna'] = e
    ty.context = 'nodal_analysis_coefficient_matrix'
    e.result_coef = ty.ty(tkey(call(ev, f1, [A('network')])))
    ty.context = 'nodal_analysis_constants_vector'; ty.site = f2.site
    e.result_rhs = ty.ty(tkey(call(evaluator(prog), f2, [A('network')])))
    # ---- bias point solution object and its accessors
    def make_object(ev, short, cname, args, kw):
        m = prog.mod(short); c = m.defs.get(cname)
        obj = ev.construct(ev.ref_of(('class', m, c)), list(args), dict(kw), 1)
        mem = prog.find_member(m, c, '__post_init__')
        if mem and isinstance(mem[1], ast.FunctionDef) and isinstance(obj, Rec):
            ev.call_fn(mem[1], mem[0], [obj], {}, {'__parent__': None}, 1)
        return m, c, obj
    def method(ev, m, c, obj, name, args):
        mem = prog.find_member(m, c, name)
        if not mem or not isinstance(mem[1], ast.FunctionDef): return None, ''
        if prog.is_property(mem[1]): return ev.call_fn(mem[1], mem[0], [obj], {}, {'__parent__': None}, 1), prog.site(mem[0], mem[1])
        return ev.call_fn(mem[1], mem[0], [obj] + list(args), {}, {'__parent__': None}, 1), prog.site(mem[0], mem[1])
    ev = evaluator(prog)
    bm, bc, obj = make_object(ev, BP, 'NodalAnalysisBiasPointSolution', [A('network')], {})
    ty = typer(prog, 'bias', prog.site(bm, bc), labels={'id'})
    e = Entry(ty); out['bias'] = e
    ty.context = 'NodalAnalysisBiasPointSolution.__post_init__'
    if isinstance(obj, Rec):
        for fld in ('_solution_vector',):
            if fld in obj.f: ty.ty(tkey(obj.f[fld]))
        for meth in ('get_potential', 'get_current', 'get_voltage', 'get_power'):
            t, st = method(ev, bm, bc, obj, meth, [A('id')])
            if t is not None:
                ty.context = f'NodalAnalysisBiasPointSolution.{meth}'; ty.site = st
                ty.ty(tkey(t))
    # ---- state-space matrices
    ev = evaluator(prog)
    f = prog.func(SS, 'state_space_matrices')
    ty = typer(prog, 'ssm', f.site, dicts={'c_values', 'l_values'})
    e = Entry(ty); out['ssm'] = e
    ty.context = 'state_space_matrices'
    e.result = ty.ty(tkey(call(ev, f, [A('network'), A('c_values'), A('l_values')])))
    # summary of the builder for the entries that only USE its result (model accessors, circuit wrapper, transient solution)
    pos, defaults = params_of(f.node)[0], params_of(f.node)[1]
    evd = evaluator(prog)
    dmap = {p_: tkey(evd.ev(d_, {'__parent__': None}, f.mod, 1)) for p_, d_ in zip(pos[len(pos) - len(defaults):], defaults) if p_ not in ('c_values', 'l_values')}
    summaries = {'state_space_matrices': (pos, e.result, ('c_values', 'l_values'), dmap)}
    SSM_OPAQUE = [(SS, 'state_space_matrices')]
    # ---- model object and its accessors
    ev = evaluator(prog, extra=SSM_OPAQUE)
    f = prog.func(SS, 'nodal_state_space_model')
    model = call(ev, f, [A('network'), A('c_values'), A('l_values')])
    ty = typer(prog, 'model', f.site, dicts={'c_values', 'l_values'}, labels={'id'}); ty.summaries = summaries
    e = Entry(ty); out['model'] = e; e.model = model; e.sources = None
    if isinstance(model, Rec):
        ty.obs.clear(); ty._seen_obs.clear()
        mm, mc = model.clsref
        for meth in ('c_row_for_potential', 'c_row_voltage', 'c_row_current', 'd_row_for_potential', 'd_row_voltage', 'd_row_current'):
            t, st = method(ev, mm, mc, model, meth, [A('id')])
            if t is not None:
                ty.context = f'NodalStateSpaceModel.{meth}'; ty.site = st
                ty.ty(tkey(t))
        t, st = method(ev, mm, mc, model, 'sources', [])
        if t is not None:
            ty.context = 'NodalStateSpaceModel.sources'; ty.site = st
            e.sources = ty.ty(tkey(t))
    # ---- circuit-level wrapper
    ev = evaluator(prog, extra=[(CC, 'transform_circuit')] + SSM_OPAQUE)
    f = prog.func(CSS, 'state_space_model')
    ty = typer(prog, 'wrapper', f.site, labels={'id'}); ty.summaries = summaries
    e = Entry(ty); out['wrapper'] = e
    ty.context = 'state_space_model'
    e.result = ty.ty(tkey(call(ev, f, [A('circuit'), A('potential_nodes'), A('voltage_ids'), A('current_ids')])))
    # ---- transient solution
    ev = evaluator(prog, extra=[(CC, 'transform_circuit')] + SSM_OPAQUE)
    try:
        tm, tc, obj = make_object(ev, CS, 'TransientSolution', [], {'circuit': A('circuit'), 'tin': A('tin'), 'input': A('input')})
    except Exception:
        tm = tc = obj = None
    ty = typer(prog, 'transient', prog.site(tm, tc) if tm else '', labels={'id'}, arrays={'tin': (('T', 'samples'),)}); ty.summaries = summaries
    e = Entry(ty); out['transient'] = e; e.obj = obj
    if isinstance(obj, Rec):
        ty.context = 'TransientSolution.__post_init__'
        for fld, v in obj.f.items():
            if fld.startswith('_'): ty.ty(tkey(v))
        for meth in ('get_potential', 'get_voltage', 'get_current', 'get_power'):
            t, st = method(ev, tm, tc, obj, meth, [A('id')])
            if t is not None:
                ty.context = f'TransientSolution.{meth}'; ty.site = st
                ty.ty(tkey(t))
    # ---- port impedance
    ev = evaluator(prog)
    f = prog.func(NA, 'open_circuit_impedance')
    ty = typer(prog, 'port', f.site, labels={'n1', 'n2'})
    e = Entry(ty); out['port'] = e
    ty.context = 'open_circuit_impedance'
    e.result = ty.ty(tkey(call(ev, f, [A('network'), A('n1'), A('n2')])))
    prog._spaces_t = out
    return out
