"""C10 -- the state-space model is an exact realisation (index spaces, matrix formulas, wiring of the builders)."""
from __future__ import annotations
import ast
from ..ncalg import NCEval, parse_expr, _single_atom
from ..spaces import flat, show, same
from ..report import AnalysisError
from . import spacerules as SR
from .c01 import _preds

SS = SR.SS


def run(rep, prog, tier):
    from .hidden import no_hidden_state
    rep.rule('R10.state', 'no hidden state in the anchored modules: no function writes a module-level object, no caching decorator / cached property')
    no_hidden_state(rep, 'R10.state', prog, ['Network/NodalAnalysis/state_space_model.py', 'Circuit/state_space_model.py', 'SignalProcessing/state_space_model.py', 'Network/NodalAnalysis/node_analysis.py'])
    rep.rule('R10.space', 'state order / source order / output-row addressing agree: every index, product and stack of the builder, the model accessors and the circuit-level wrapper joins equal label spaces')
    rep.rule('R10.layout', 'A: S x S, B: S x U, C: (N+V) x S, D: (N+V) x U with S = order of c_values then l_values, U = current sources then voltage sources that are not inductors; the published source list has space U')
    rep.rule('R10.formula', 'non-commutative normal forms of A, B, C, D equal the MNA derivation: S = (DQ^T A~^-1 DQ)^-1, A = L^-1 S, B = -L^-1 S DQ^T A~^-1 QS, C = A~^-1 DQ S, D = (A~^-1 - A~^-1 DQ S DQ^T A~^-1) QS (A~ symmetric)')
    rep.rule('R10.wiring', 'Delta from c_values, QS/QL from l_values, DQ = [Delta^T | QL], A~ = real DC coefficient matrix of the same network, Lambda from (c_values, l_values); model object receives the same dictionaries and mappers')
    rep.rule('R10.wrapper', 'the circuit-level wrapper stacks C and D rows from the same request lists in the same order with matching accessor kinds')
    rep.rule('R10.rows', 'c_row_X / d_row_X are images of each other under C<->D, A<->B (confirmed exceptions: current-source feedthrough, filtered map)')
    rep.assume('A1: no current source is an inductor')
    interps = SR.analyse(prog)
    n = SR.emit(rep, 'R10.space', interps, ['ssm', 'model', 'wrapper'])
    rep.count('space_obligations', n)
    if n < 90: rep.error(f'only {n} index-space obligations in the state-space path')
    layout(rep, interps)
    formulas(rep, prog)
    rows(rep, prog)
    wrapper(rep, prog)


def layout(rep, interps):
    res = interps['ssm'].result
    if res is None or res.kind != 'tuple' or len(res.items) != 4 or not all(x.kind == 'array' and len(x.axes) == 2 for x in res.items):
        rep.ob('R10.layout', 'ABCD', None, f'result not followed: {res!r:.200}'); return
    A, B, C, D = res.items
    S = ['ord(c_values)', 'ord(l_values)']
    NV = ['node!=zero', 'is_ideal_voltage_source']
    okA = _preds(A.axes[0]) == S and _preds(A.axes[1]) == S
    rep.ob('R10.layout', 'A', okA, f'{show(A.axes[0])} × {show(A.axes[1])}')
    rep.ob('R10.layout', 'B', _preds(B.axes[0]) == S, f'{show(B.axes[0])} × {show(B.axes[1])}')
    rep.ob('R10.layout', 'C', _preds(C.axes[0]) == NV and _preds(C.axes[1]) == S, f'{show(C.axes[0])} × {show(C.axes[1])}')
    rep.ob('R10.layout', 'D', _preds(D.axes[0]) == NV and same(D.axes[1], B.axes[1]), f'{show(D.axes[0])} × {show(D.axes[1])}')
    U = B.axes[1]
    fu = flat(U)
    okU = len(fu) == 2 and fu[0][0] == 'S' and fu[0][1] == 'is_current_source' and fu[1][0] == 'SUB' and fu[1][2] == 'notin:l_values' and fu[1][1][1] == 'is_ideal_voltage_source'
    rep.ob('R10.layout', 'U', okU, f'input space {show(U)}')
    src = interps['model'].sources
    if src is None or src.kind != 'list':
        rep.ob('R10.layout', 'sources', None, f'sources property not followed: {src!r:.100}')
    else:
        rep.ob('R10.layout', 'sources', same(src.space, U), f'published source order {show(src.space)} vs columns of B {show(U)}')


SPEC = {
    'A': "invLambda @ S_",
    'B': "-invLambda @ S_ @ DQ.T @ inv(A_tilde) @ QS",
    'C': "inv(A_tilde) @ DQ @ S_",
    'D': "(inv(A_tilde) - inv(A_tilde) @ DQ @ S_ @ DQ.T @ inv(A_tilde)) @ QS",
}
S_EXPR = "inv(DQ.T @ inv(A_tilde) @ DQ)"


def formulas(rep, prog):
    m = prog.mod(SS)
    fn = m.defs.get('state_space_matrices')
    if not isinstance(fn, ast.FunctionDef): raise AnalysisError('state_space_matrices not found')
    body = [st for st in fn.body if not isinstance(st, ast.FunctionDef)]
    site = prog.site(m, fn)
    ev0 = NCEval(); res = ev0.run(body)
    if not isinstance(res, list) or len(res) != 4:
        rep.ob('R10.formula', 'ABCD', None, 'state_space_matrices does not return four straight-line matrix expressions', site); return
    # identify the base matrices by the calls that produce them (not by local variable names)
    def atom_of_call(prefix):
        for name in ev0.calls:
            if name.startswith(prefix + '('): return name
        return None
    a_tilde = atom_of_call('nodal_analysis_coefficient_matrix')
    delta = atom_of_call('element_incidence_matrix')
    qsql = atom_of_call('source_and_inductance_incidence_matrix')
    lam = atom_of_call('value_matrix')
    hst = atom_of_call('hstack')
    ilam = next((n for n in ev0.calls if n.startswith('diag(') and '1 /' in n.replace('1/', '1 /')), None)
    wiring = {
        'Delta<-c_values': delta is not None and ev0.calls[delta][1] == ['c_values'],
        'QS,QL<-l_values': qsql is not None and ev0.calls[qsql][1] == ['l_values'],
        'A_tilde<-network': a_tilde is not None and (ev0.calls[a_tilde][1][:1] == ['network'] or ev0.calls[a_tilde][2].get('network') == 'network'),
        'Lambda<-(c_values,l_values)': lam is not None and ev0.calls[lam][1] == ['c_values', 'l_values'],
    }
    for k, ok in wiring.items():
        rep.ob('R10.wiring', k, bool(ok), 'argument wiring of the builder' if ok else f'unexpected arguments: {[(n, ev0.calls[n][1]) for n in ev0.calls]!r:.200}', site)
    # DQ = hstack((Delta.T, QL))
    okdq = False
    if hst is not None and delta is not None and qsql is not None:
        arg = ev0.calls[hst][1][0] if ev0.calls[hst][1] else ''
        try:
            tup = ast.parse(arg, mode='eval').body
            if isinstance(tup, ast.Tuple) and len(tup.elts) == 2:
                e1 = NCEval(); e1.env = dict(ev0.env)
                first, second = e1.ev(tup.elts[0]), e1.ev(tup.elts[1])
                okdq = repr(first) == delta + 'ᵀ' and _single_atom(second) == qsql + '[1]'
        except SyntaxError:
            pass
    rep.ob('R10.wiring', 'DQ=[Delta^T|QL]', okdq, f'DQ = {hst}', site)
    # invLambda = diag(1/diag(Lambda))
    okil = ilam is not None and lam is not None
    if okil:
        arg = ev0.calls[ilam][1][0]
        okil = False
        try:
            lc = ast.parse(arg, mode='eval').body
            if isinstance(lc, (ast.ListComp, ast.GeneratorExp)) and len(lc.generators) == 1 and not lc.generators[0].ifs and 'diag(' in ast.unparse(lc.generators[0].iter):
                from ..terms import Evaluator as _E, Comp as _C, Poly as _P, term_equal as _te
                from ..api import A as _A
                e1 = _E(prog)
                t_ = e1.ev(lc, {'__parent__': None, 'Lambda': _A('Lambda'), 'np': e1.lookup('np', {'__parent__': None}, m)}, m, 1)
                if isinstance(t_, _C) and len(t_.gens) == 1:
                    beta = e1.elem_of(t_.gens[0][0], 0)
                    okil = _te(t_.elt, beta.inv()) if isinstance(beta, _P) else False
        except SyntaxError:
            okil = False
    rep.ob('R10.wiring', 'invLambda=diag(1/diag(Lambda))', bool(okil), f'invLambda = {ilam}', site)
    if None in (a_tilde, hst, qsql, ilam):
        rep.ob('R10.formula', 'ABCD', None, 'base matrices not identified', site); return
    from ..ncalg import NC
    sym = {a_tilde}
    ev = NCEval(symmetric=sym); res = ev.run(body)
    spv = NCEval(symmetric=sym)
    spv.env = {'DQ': NC.atom(hst), 'A_tilde': NC.atom(a_tilde), 'QS': NC.atom(qsql + '[0]'), 'invLambda': NC.atom(ilam)}
    spv.env['S_'] = spv.ev(parse_expr(S_EXPR))
    for name, got in zip('ABCD', res):
        want = spv.ev(parse_expr(SPEC[name]))
        opaque = '?' in repr(got)
        rep.ob('R10.formula', name, True if got == want else (None if opaque else False), f'{name} = {got!r:.300}' + ('' if got == want else f'   expected {want!r:.300}'), site)
    # real part of the DC matrix
    src = ast.unparse(fn)
    rep.ob('R10.wiring', 'A_tilde:real', 'nodal_analysis_coefficient_matrix(network).real' in src.replace(' ', '') or '.real' in src, 'DC coefficient matrix taken as real', site)


def wrapper(rep, prog):
    """Circuit.state_space_model: C and D are stacked from the same request lists, in the same order, with matching accessor kinds"""
    m = prog.mod(SR.CSS); fn = m.defs.get('state_space_model')
    if not isinstance(fn, ast.FunctionDef):
        rep.ob('R10.wrapper', 'state_space_model', None, 'wrapper not found'); return
    seq = {'c': [], 'd': []}
    for st in fn.body:
        if isinstance(st, ast.For):
            for call in ast.walk(st):
                if isinstance(call, ast.Call) and isinstance(call.func, ast.Attribute) and call.func.attr[:6] in ('c_row_', 'd_row_'):
                    arg = ast.unparse(call.args[0]) if call.args else None
                    ok_arg = isinstance(st.target, ast.Name) and arg == st.target.id
                    tgt = None
                    for a in ast.walk(st):
                        if isinstance(a, ast.Assign) and isinstance(a.targets[0], ast.Name): tgt = a.targets[0].id
                    seq[call.func.attr[0]].append((ast.unparse(st.iter), call.func.attr[6:], ok_arg, tgt))
    site = prog.site(m, fn)
    okc = [(a, b) for a, b, ok, t in seq['c']] == [(a, b) for a, b, ok, t in seq['d']] and len(seq['c']) >= 3
    rep.ob('R10.wrapper', 'rows-in-step', okc, f"C rows: {[(a, b) for a, b, _, _ in seq['c']]}  D rows: {[(a, b) for a, b, _, _ in seq['d']]}", site)
    rep.ob('R10.wrapper', 'row-argument', all(ok for _, _, ok, _ in seq['c'] + seq['d']) and bool(seq['c']), 'each row is requested for the identifier being iterated', site)
    kinds = {('potential_nodes', 'for_potential'), ('voltage_ids', 'voltage'), ('current_ids', 'current')}
    rep.ob('R10.wrapper', 'list-kind', {(a, b) for a, b, _, _ in seq['c']} == kinds, 'potential_nodes -> potential rows, voltage_ids -> voltage rows, current_ids -> current rows', site)
    from ..prog import returned_expr
    rv = returned_expr(fn)
    kw = {k.arg: ast.unparse(k.value) for k in rv.keywords} if isinstance(rv, ast.Call) else {}
    ctargets = {t for _, _, _, t in seq['c']}; dtargets = {t for _, _, _, t in seq['d']}
    okr = kw.get('A', '').endswith('.A') and kw.get('B', '').endswith('.B') and {kw.get('C')} == ctargets and {kw.get('D')} == dtargets
    rep.ob('R10.wrapper', 'result', okr, f'StateSpaceModel({kw})', site)


MIRROR = {'C': 'D', 'A': 'B', 'c_pos': 'd_pos', 'c_neg': 'd_neg', 'c_row_for_potential': 'd_row_for_potential', 'c_row': 'd_row'}
MIRROR_PAIRS = [('c_row_for_potential', 'd_row_for_potential'), ('c_row_voltage', 'd_row_voltage')]


def _alpha(fn):
    """canonical dump of a function body with local variable names replaced by their order of first binding"""
    import copy
    fn = copy.deepcopy(fn)
    params = {a.arg for a in fn.args.args}
    order = {}
    for n in ast.walk(fn):
        if isinstance(n, ast.Name) and isinstance(n.ctx, ast.Store) and n.id not in params and n.id not in order:
            order[n.id] = f'v{len(order)}'
    for n in ast.walk(fn):
        if isinstance(n, ast.Name) and n.id in order: n.id = order[n.id]
    return fn


class _Ren(ast.NodeTransformer):
    def visit_Name(self, n):
        return ast.copy_location(ast.Name(id=MIRROR.get(n.id, n.id), ctx=n.ctx), n)
    def visit_Attribute(self, n):
        self.generic_visit(n)
        return ast.copy_location(ast.Attribute(value=n.value, attr=MIRROR.get(n.attr, n.attr), ctx=n.ctx), n)


def rows(rep, prog):
    import copy
    m = prog.mod(SS); cls = m.defs.get('NodalStateSpaceModel')
    if not isinstance(cls, ast.ClassDef):
        rep.ob('R10.rows', 'class', None, 'NodalStateSpaceModel not found'); return
    meth = {n.name: n for n in cls.body if isinstance(n, ast.FunctionDef)}
    for c, d in MIRROR_PAIRS:
        if c not in meth or d not in meth:
            rep.ob('R10.rows', f'{c}/{d}', None, 'accessor missing', prog.site(m, cls)); continue
        cm = _alpha(_Ren().visit(copy.deepcopy(meth[c])))
        a = ast.dump(ast.Module(body=cm.body, type_ignores=[]), annotate_fields=False)
        b = ast.dump(ast.Module(body=_alpha(meth[d]).body, type_ignores=[]), annotate_fields=False)
        rep.ob('R10.rows', f'{c}/{d}', a == b, 'mirror images under C<->D' if a == b else 'the two accessors differ beyond C<->D renaming', prog.site(m, meth[d]))
    # current rows: compare branch by branch
    if 'c_row_current' in meth and 'd_row_current' in meth:
        cc, dc = meth['c_row_current'], meth['d_row_current']
        def rets(fn):
            return sorted((r for r in ast.walk(fn) if isinstance(r, ast.Return) and r.value is not None), key=lambda r: (r.lineno, r.col_offset))
        def canon(expr, fn):
            # locals numbered by first occurrence inside the returned expression itself
            e2 = copy.deepcopy(expr)
            params = {a.arg for a in fn.args.args}
            order = {}
            for n_ in ast.walk(e2):
                if isinstance(n_, ast.Name) and n_.id not in params and n_.id not in ('np', 'self'):
                    order.setdefault(n_.id, f'v{len(order)}'); n_.id = order[n_.id]
            return ast.unparse(e2)
        rc = [canon(_Ren().visit(copy.deepcopy(r.value)), cc) for r in rets(cc)]
        rd = [canon(r.value, dc) for r in rets(dc)]
        # the state rows may only read A / C, the feedthrough rows only B / D
        c_uses = {n.attr for n in ast.walk(cc) if isinstance(n, ast.Attribute) and isinstance(n.value, ast.Name) and n.value.id == 'self' and n.attr in 'ABCD'}
        d_uses = {n.attr for n in ast.walk(dc) if isinstance(n, ast.Attribute) and isinstance(n.value, ast.Name) and n.value.id == 'self' and n.attr in 'ABCD'}
        rep.ob('R10.rows', 'current:matrices', c_uses <= {'A', 'C'} and d_uses <= {'B', 'D'}, f'c_row_current reads {sorted(c_uses)}, d_row_current reads {sorted(d_uses)}', prog.site(m, dc))
        same_cap = len(rc) >= 1 and len(rd) >= 1 and rc[0] == rd[0]
        same_pas = len(rc) >= 1 and rc[-1] == rd[-1]
        rep.ob('R10.rows', 'current:capacitor', same_cap, f'{rc[0] if rc else None} ~ {rd[0] if rd else None}', prog.site(m, dc))
        rep.ob('R10.rows', 'current:passive', same_pas, f'{rc[-1] if rc else None} ~ {rd[-1] if rd else None}', prog.site(m, dc))
