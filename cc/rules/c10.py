"""C10 -- the state-space model is an exact realisation (index spaces, matrix formulas, wiring of the builders)."""
from __future__ import annotations
import ast
from ..ncalg import NCEval, parse_expr, _single_atom
from ..api import A, spec
from fractions import Fraction
from ..terms import tkey
from ..spaces import flat, show, same
from ..report import AnalysisError
from . import spacerules as SR
from .c01 import _preds

SS = SR.SS


def run(rep, prog, tier):
    from .hidden import no_hidden_state
    rep.rule('R10.state', 'no hidden state in the anchored modules: no function writes a module-level object, no caching decorator / cached property')
    no_hidden_state(rep, 'R10.state', prog, ['Network/NodalAnalysis/state_space_model.py', 'Circuit/state_space_model.py', 'SignalProcessing/state_space_model.py', 'Network/NodalAnalysis/node_analysis.py'])
    rep.rule('R10.space', 'state order / source order / output-row addressing agree: every index, product and stack of the builder, the model accessors and the circuit-level wrapper joins equal label spaces')
    rep.rule('R10.layout', 'A: S x S, B: S x U, C: (N+V) x S, D: (N+V) x U with S = order of c_values then l_values, U = current sources then voltage sources that are not inductors; the published source list has space U')
    rep.rule('R10.formula', 'non-commutative normal forms of A, B, C, D equal the MNA derivation: S = (DQ^T A~^-1 DQ)^-1, A = L^-1 S, B = -L^-1 S DQ^T A~^-1 QS, C = A~^-1 DQ S, D = (A~^-1 - A~^-1 DQ S DQ^T A~^-1) QS (A~ symmetric)')
    rep.rule('R10.wiring', 'Delta from c_values, QS/QL from l_values, DQ = [Delta^T | QL], A~ = real DC coefficient matrix of the same network, Lambda from (c_values, l_values); model object receives the same dictionaries and mappers')
    rep.rule('R10.wrapper', 'the circuit-level wrapper stacks C and D rows from the same request lists in the same order with matching accessor kinds')
    rep.rule('R10.rows', 'c_row_X / d_row_X are images of each other under C<->D, A<->B (confirmed exceptions: current-source feedthrough, filtered map)')
    rep.assume('A1: no current source is an inductor')
    interps = SR.analyse(prog)
    n = SR.emit(rep, 'R10.space', interps, ['ssm', 'model', 'wrapper'])
    rep.count('space_obligations', n)
    if n < 25: rep.error(f'only {n} index-space obligations in the state-space path')
    layout(rep, interps)
    formulas(rep, prog)
    rows(rep, prog)
    wrapper(rep, prog)


def layout(rep, interps):
    res = interps['ssm'].result
    if res is None or res.kind != 'tuple' or len(res.items) != 4 or not all(x.kind == 'array' and len(x.axes) == 2 for x in res.items):
        rep.ob('R10.layout', 'ABCD', None, f'result not followed: {res!r:.200}'); return
    A, B, C, D = res.items
    S = ['ord(c_values)', 'ord(l_values)']
    NV = ['node!=zero', 'is_ideal_voltage_source']
    def tv(ok, *axes):
        # an axis that was not typed leaves the layout undecided (it does not refute it)
        return None if (not ok and any('?:' in show(a) for a in axes)) else ok
    okA = _preds(A.axes[0]) == S and _preds(A.axes[1]) == S
    rep.ob('R10.layout', 'A', tv(okA, *A.axes), f'{show(A.axes[0])} × {show(A.axes[1])}')
    rep.ob('R10.layout', 'B', tv(_preds(B.axes[0]) == S, B.axes[0]), f'{show(B.axes[0])} × {show(B.axes[1])}')
    rep.ob('R10.layout', 'C', tv(_preds(C.axes[0]) == NV and _preds(C.axes[1]) == S, *C.axes), f'{show(C.axes[0])} × {show(C.axes[1])}')
    rep.ob('R10.layout', 'D', tv(_preds(D.axes[0]) == NV and same(D.axes[1], B.axes[1]), *D.axes, B.axes[1]), f'{show(D.axes[0])} × {show(D.axes[1])}')
    U = B.axes[1]
    fu = flat(U)
    okU = len(fu) == 2 and fu[0][0] == 'S' and fu[0][1] == 'is_current_source' and fu[1][0] == 'SUB' and fu[1][2] == 'notin:l_values' and fu[1][1][1] == 'is_ideal_voltage_source'
    rep.ob('R10.layout', 'U', tv(okU, U), f'input space {show(U)}')
    src = interps['model'].sources
    if src is None or src.kind != 'list':
        rep.ob('R10.layout', 'sources', None, f'sources property not followed: {src!r:.100}')
    else:
        rep.ob('R10.layout', 'sources', same(src.space, U), f'published source order {show(src.space)} vs columns of B {show(U)}')


def formulas(rep, prog):
    from . import ssm as SSM
    from . import incidence as INC
    from ..diagalg import show as dshow
    an = SSM.analyse(prog)
    site = an['site']
    if 'undecided' in an:
        rep.ob('R10.formula', 'ABCD', None, an['undecided'], site); return
    roles, kn = an['roles'], an['kn']
    one = lambda r: roles.get(r, [None])[0] if len(roles.get(r, [])) == 1 else None
    at, dq, lam, qs = one('A_tilde'), one('DQ'), one('LAMBDA'), one('QS')
    # ---- wiring of the base matrices (by content of their normal forms)
    tabs = INC.tables(prog)
    dkey = kn.names.get(dq) if dq else None
    okd = None
    if dkey is not None:
        r = repr(dkey)
        okd = "'c_values'" in r and 'undecided' not in tabs['Delta']
    rep.ob('R10.wiring', 'Delta<-c_values', okd or None, 'the incidence block of the state matrix is built over c_values' if okd else 'incidence block over c_values not identified', site)
    # DQ = [Delta^T | QL]: first part a transposed array built over c_values, second part a column selection by l_values
    okdq = okql = None
    if dkey is not None:
        parts = list(dkey[2:])
        if len(parts) == 2:
            p0, p1 = repr(parts[0]), repr(parts[1])
            horizontal = dkey[1] == 'hcat'
            first_T = ("('T'," in p0[:40]) if horizontal else ("('T'," not in p0[:40])
            okdq = bool("'c_values'" in p0 and "'build'" in p0 and first_T and "'c_values'" not in p1)
            okql = bool("'l_values'" in p1 and "'c_values'" not in p1)
        else:
            okdq = False
    rep.ob('R10.wiring', 'DQ=[Delta^T|QL]', okdq or None, f'DQ = {dkey[1] if dkey else None}(capacitor incidence (transposed), inductance columns)', site)
    qkey = kn.names.get(qs) if qs else None
    okq = None
    if qkey is not None and dkey is not None and okql is not None:
        rq = repr(qkey)
        qlk = dkey[3] if len(dkey) == 4 else None
        if isinstance(qlk, tuple) and qlk[:1] == ('poly',) and len(qlk) == 2 and len(qlk[1][0]) == 1: qlk = qlk[1][0][0][0]      # 1 * atom
        same_base = isinstance(qkey, tuple) and qkey[:1] == ('[]',) and isinstance(qlk, tuple) and qlk[:1] == ('[]',) and qlk[1] == qkey[1]
        okq = bool(okql and "'l_values'" in rq and same_base)
    rep.ob('R10.wiring', 'QS,QL<-l_values', okq or None, 'QS and QL select complementary columns (by l_values) of one source incidence block' if okq else 'column selections by l_values not identified', site)
    akey = kn.names.get(at) if at else None
    if akey is not None and akey[:1] == ('imag',):
        from ..terms import term_from_key
        p_ = term_from_key(akey[1]) if isinstance(akey[1], tuple) and akey[1][:1] == ('poly',) else None
        akey = p_.as_atom() if p_ is not None and p_.as_atom() is not None else akey[1]
    oka = None
    if akey is not None:
        args, kw = akey[2], dict(akey[3])
        net = tkey(A('network'))
        oka = (args[:1] == (net,) or kw.get('network') == net)
    rep.ob('R10.wiring', 'A_tilde<-network', oka, 'DC coefficient matrix of the same network', site)
    rep.ob('R10.wiring', 'A_tilde:real', ((at in an['real']) and not an.get('imag')) if at else None, 'DC coefficient matrix taken as real', site)
    blocks, d = SSM.lambda_blocks(an)
    inverted = SSM._is_inverse_lambda(d) if d is not None else None
    if d is not None and d[0] == 'bad': inverted = None
    rep.ob('R10.wiring', 'Lambda<-(c_values,l_values)', None if d is None else inverted is not None, f'value matrix = {dshow(d)}' + (' (already inverted)' if inverted else ''), site)
    A_ = an['forms']['A']
    rep.ob('R10.wiring', 'invLambda=diag(1/diag(Lambda))', None if d is None else inverted is not None,
           f'A = {A_!r:.120}: its first factor is the element-wise reciprocal / inverse of the diagonal value matrix', site)
    # ---- formulas
    want, why = SSM.spec_forms(an)
    if want is None:
        rep.ob('R10.formula', 'ABCD', None, why, site); return
    for name in 'ABCD':
        got = an['forms'][name]
        opaque = '?' in repr(got)
        rep.ob('R10.formula', name, True if got == want[name] else (None if opaque else False),
               f'{name} = {got!r:.300}' + ('' if got == want[name] else f'   expected {want[name]!r:.300}') + f"   [{', '.join(f'{r}={v[0]}' for r, v in roles.items() if r != 'other')}]", site)


def wrapper(rep, prog):
    """Circuit.state_space_model: C and D are stacked from the same request lists, in the same order, with matching accessor kinds
    (normal forms: a stacking loop, a single stack of comprehensions and a table-driven helper all reduce to vcat(rows(...), ...))"""
    from ..terms import Evaluator, Rec, Poly, term_equal, has_opaque
    from ..api import call, spec
    try:
        f = prog.func(SR.CSS, 'state_space_model')
    except KeyError:
        rep.ob('R10.wrapper', 'state_space_model', None, 'wrapper not found'); return
    site = f.site
    ev = Evaluator(prog); ev.opaque_fns |= {(SS, 'nodal_state_space_model')}
    t = call(ev, f, [A('circuit'), A('potential_nodes'), A('voltage_ids'), A('current_ids')])
    if not isinstance(t, Rec) or not all(k in t.f for k in 'ABCD'):
        rep.ob('R10.wrapper', 'result', None, f'result not a StateSpaceModel record: {t!r:.160}', site); return
    ats = [t.f[k].as_atom() if isinstance(t.f[k], Poly) else None for k in 'AB']
    okr = all(isinstance(a_, tuple) and a_[:1] == ('.',) and a_[2] == k for a_, k in zip(ats, 'AB')) and ats[0][1] == ats[1][1] \
        and isinstance(ats[0][1], tuple) and ats[0][1][:2] == ('call', ('fn', 'nodal_state_space_model'))
    rep.ob('R10.wrapper', 'result', bool(okr), 'A and B are those of the nodal state-space model of the circuit', site)
    if not okr: return
    ssm = Poly.atom(ats[0][1])
    env = {'ssm': ssm, 'potential_nodes': A('potential_nodes'), 'voltage_ids': A('voltage_ids'), 'current_ids': A('current_ids'), 'np': ev.lookup('np', {'__parent__': None}, f.mod)}
    for mat, pre in (('C', 'c'), ('D', 'd')):
        src = (f"np.vstack([ssm.{pre}_row_for_potential(i) for i in potential_nodes] + [ssm.{pre}_row_voltage(i) for i in voltage_ids] + "
               f"[ssm.{pre}_row_current(i) for i in current_ids])")
        sp = spec(ev, src, env, f.mod)
        got = t.f[mat]
        ok = term_equal(got, sp)
        rep.ob('R10.wrapper', f'{mat}-rows', True if ok else (None if has_opaque(got) else False),
               f'{mat} = {got!r:.300}' if not ok else f'{mat} stacks the potential rows, then the voltage rows, then the current rows, each requested for its own identifier', site, lhs=got, rhs=sp)
    # arguments of the model: DC network of the circuit, capacitor / inductance value dictionaries in listing order
    kw = dict(ats[0][1][3]); pos = list(ats[0][1][2])
    names = ['network', 'c_values', 'l_values']
    args = {n: kw.get(n, pos[i] if i < len(pos) else None) for i, n in enumerate(names)}
    envc = {'circuit': A('circuit')}
    for nm, kind, key in (('c_values', 'capacitor', 'C'), ('l_values', 'inductance', 'L')):
        sp = spec(ev, f"{{c.id: float(c.value['{key}']) for c in circuit.components if c.type == '{kind}'}}", envc, f.mod)
        from ..terms import Comp as _C
        k = args.get(nm)
        okv = k is not None and _dict_comp_equal(k, tkey(sp))
        rep.ob('R10.wrapper', f'model:{nm}', True if okv else (None if k is None or "'?'" in repr(k) else False), f"{nm} = {{id: value['{key}'] for the {kind} components in listing order}}", site)


def _dict_comp_equal(k, want):
    """two dict-comprehension keys are equal, also when one filters in a nested comprehension and the other in its own generator"""
    if k == want: return True
    def norm(x):
        # ('comp','dict', elt, ((iter, filters),)) with iter = ('comp','list', β, ((src, filters2),)) over identity element  ->  single generator over src
        if isinstance(x, tuple) and x[:2] == ('comp', 'dict') and len(x[3]) == 1:
            it, fl = x[3][0]
            if isinstance(it, tuple) and it[:2] == ('comp', 'list') and len(it[3]) == 1:
                src, fl2 = it[3][0]
                inner_beta = ('β', 0, src)
                if it[2] == ('poly', (((inner_beta, Fraction(1)),), (Fraction(1), Fraction(0)))):
                    outer_beta = ('β', 0, it)
                    return ('comp', 'dict', _subst_key(x[2], outer_beta, inner_beta), ((src, tuple(_subst_key(f_, outer_beta, inner_beta) for f_ in fl) + tuple(fl2)),))
        return x
    return norm(k) == norm(want)


def _subst_key(k, old, new):
    if k == old: return new
    if isinstance(k, tuple): return tuple(_subst_key(x, old, new) for x in k)
    return k


MIRROR = {'C': 'D', 'A': 'B', 'c_row_for_potential': 'd_row_for_potential', 'c_row_voltage': 'd_row_voltage', 'c_row_current': 'd_row_current'}
MIRROR_PAIRS = [('c_row_for_potential', 'd_row_for_potential', 'node_id'), ('c_row_voltage', 'd_row_voltage', 'branch_id')]


def _mirror_key(k):
    """C <-> D, A <-> B and c_row_* <-> d_row_* on the attributes of `self` inside a term key"""
    if isinstance(k, tuple):
        if len(k) == 3 and k[0] == '.' and k[1] == 'self' and k[2] in MIRROR: return ('.', 'self', MIRROR[k[2]])
        return tuple(_mirror_key(x) for x in k)
    return k


def rows(rep, prog):
    _rows(rep, prog)
    current_formulas(rep, prog)


def _rows(rep, prog):
    """the feedthrough accessors are the images of the state accessors under C -> D, A -> B (normal forms of the methods; private helpers
    inlined), except that a current source feeds through with a one at its own input column"""
    from ..terms import paths_of, has_opaque, Opq, Poly
    from .solutions import new_ev, method_term, class_of
    try:
        mm, cls = class_of(prog, SS, 'NodalStateSpaceModel')
    except Exception:
        rep.ob('R10.rows', 'class', None, 'NodalStateSpaceModel not found'); return
    def term(meth, arg):
        ev = new_ev(prog); ev.opaque_fns |= {('Network.elements', 'is_ideal_voltage_source')}
        return method_term(prog, ev, mm, cls, meth, [A(arg)])
    for c, d, arg in MIRROR_PAIRS:
        try:
            (tc, _), (td, site) = term(c, arg), term(d, arg)
        except AnalysisError:
            rep.ob('R10.rows', f'{c}/{d}', None, 'accessor missing', prog.site(mm, cls)); continue
        ok = _mirror_key(tkey(tc)) == tkey(td)
        rep.ob('R10.rows', f'{c}/{d}', True if ok else (None if has_opaque(tc) or has_opaque(td) else False),
               'mirror images under C<->D' if ok else f'{c} = {tc!r:.200}  but  {d} = {td!r:.200}', site)
    try:
        (tc, _), (td, site) = term('c_row_current', 'branch_id'), term('d_row_current', 'branch_id')
    except AnalysisError:
        rep.ob('R10.rows', 'current', None, 'accessor missing', prog.site(mm, cls)); return
    pc_, pd_ = dict(paths_of(tc)), dict(paths_of(td))
    uses = lambda t: {x for x in 'ABCD' if repr(('.', 'self', x)) in repr(tkey(t))}
    rep.ob('R10.rows', 'current:matrices', uses(tc) <= {'A', 'C'} and uses(td) <= {'B', 'D'}, f'c_row_current reads {sorted(uses(tc))}, d_row_current reads {sorted(uses(td))}', site)
    if set(pc_) != set(pd_):
        rep.ob('R10.rows', 'current:cases', None if has_opaque(tc) or has_opaque(td) else False, f'the two accessors distinguish different cases: {len(pc_)} vs {len(pd_)} paths', site); return
    rep.ob('R10.rows', 'current:cases', True, f'{len(pc_)} cases, the same in both accessors', site)
    csm = repr(tkey(Opq('in', A('branch_id'), ev_attr(prog, mm, 'current_source_index_mapping'))))
    cap = repr(tkey(Opq('in', A('branch_id'), ev_attr(prog, mm, 'c_values'))))
    for pc in pc_:
        lc, ld = pc_[pc], pd_[pc]
        is_src = (csm, True) in pc
        is_cap = (cap, True) in pc
        name = 'current:source' if is_src else ('current:capacitor' if is_cap else ('current:passive' if all(not v for _, v in pc) else 'current:voltage-source'))
        if is_src:
            # state row: zeros; feedthrough row: zeros with a one at the source's own input column
            okc = isinstance(lc, Opq) and lc.k[0] == 'np.zeros'
            okd = False
            if isinstance(ld, Opq) and ld.k[0] == 'build' and len(ld.k[2]) == 1:
                st = ld.k[2][0]
                idx, val = st.k[3], st.k[4]
                want = Poly.atom(('[]', ('.', 'self', 'current_source_index_mapping'), tkey(A('branch_id'))))
                okd = len(idx) == 1 and tkey(idx[0]) == tkey(want) and isinstance(val, Poly) and val.real_const() == 1 and st.k[2] is True
            else:
                # the same unit vector spelled as a row of the identity matrix: eye(n)[index of the source]
                at_ = ld.as_atom() if isinstance(ld, Poly) else None
                want = Poly.atom(('[]', ('.', 'self', 'current_source_index_mapping'), tkey(A('branch_id'))))
                if isinstance(at_, tuple) and len(at_) == 3 and at_[0] == '[]' and isinstance(at_[1], tuple) and at_[1][:1] == ('eye',) and len(at_[1]) == 2 and at_[2] == tkey(want):
                    okd = True
            rep.ob('R10.rows', name, True if (okc and okd) else (None if has_opaque(ld) else False), f'state row {lc!r:.80} ; feedthrough row {ld!r:.160}', site)
        else:
            ok = _mirror_key(tkey(lc)) == tkey(ld)
            rep.ob('R10.rows', name, True if ok else (None if has_opaque(lc) or has_opaque(ld) else False), f'{lc!r:.120} ~ {ld!r:.120}', site)


def current_formulas(rep, prog):
    """the current of a passive branch is its own voltage row divided by its own impedance, the current of a capacitor is C times its own row
    of A (B): the accessor evaluated on the path of that case (the three membership tests assumed accordingly), helpers inlined"""
    from ..terms import Opq, compare_terms
    from .solutions import new_ev, method_term, class_of
    try:
        mm, cls = class_of(prog, SS, 'NodalStateSpaceModel')
    except Exception:
        return
    SPEC = {'passive': "(self.{p}_row_for_potential(self.network[branch_id].node1) - self.{p}_row_for_potential(self.network[branch_id].node2))/self.network[branch_id].element.Z",
            'capacitor': "self.c_values[branch_id]*self.{M}[list(self.c_values.keys()).index(branch_id)][:]"}
    for meth, p_, M_ in (('c_row_current', 'c', 'A'), ('d_row_current', 'd', 'B')):
        for case in ('passive', 'capacitor'):
            ev = new_ev(prog); ev.opaque_fns |= {('Network.elements', 'is_ideal_voltage_source'), ('Network.NodalAnalysis.node_analysis', 'admittance_between'), ('Network.NodalAnalysis.node_analysis', 'admittance_connected_to')}
            ev.inline_self_methods = {'c_row_for_potential', 'd_row_for_potential', 'c_row_voltage', 'd_row_voltage'}
            for attr in ('c_values', 'current_source_index_mapping', 'voltage_source_index_mapping'):
                ev._assume_branch(Opq('in', A('branch_id'), ev_attr(prog, mm, attr)), attr == 'c_values' and case == 'capacitor')
            try:
                t, site = method_term(prog, ev, mm, cls, meth, [A('branch_id')])
            except AnalysisError:
                rep.ob('R10.rows', f'{meth}:{case}:formula', None, 'accessor missing', prog.site(mm, cls)); continue
            sp = spec(ev, SPEC[case].format(p=p_, M=M_), {'self': A('self'), 'branch_id': A('branch_id')}, mm)
            c = compare_terms(t, sp, total=True)
            rep.ob('R10.rows', f'{meth}:{case}:formula', c, (f'current of a {case} branch = {t!r:.200}' + ('' if c is True else
                   ' -- not its own voltage row over its own impedance' if case == 'passive' else ' -- not C times its own state row')), site, lhs=t, rhs=sp)


def ev_attr(prog, mm, attr):
    from ..terms import Evaluator
    return Evaluator(prog).getattr(A('self'), attr, mm, 0)
