"""C12 -- transient simulation solves the circuit's ODEs: wiring of model, inputs, solver and output rows (structure only)."""
from __future__ import annotations
import ast
from ..api import A, spec
from ..terms import Evaluator, Poly, Comp, Opq, Rec, tkey, term_equal, has_opaque, as_poly, compare_terms
from ..report import AnalysisError
from . import spacerules as SR
from .solutions import class_of, new_ev, init_self, method_term, OPAQUE_CIRCUIT

CS = SR.CS


def run(rep, prog, tier):
    from .hidden import no_hidden_state
    rep.rule('R12.state', 'no hidden state in the anchored modules: no function writes a module-level object, no caching decorator / cached property')
    no_hidden_state(rep, 'R12.state', prog, ['Circuit/solution.py', 'Network/NodalAnalysis/state_space_model.py', 'SignalProcessing/state_space_model.py', 'SignalProcessing/one_sided_functions.py'])
    rep.rule('R12.space', 'inputs are fed in the model\'s published source order (= columns of B), states / outputs are multiplied with rows of the same layout (index-space typing of TransientSolution)')
    rep.rule('R12.wiring', 'model built at w=0 from the circuit\'s own C / L values; solver receives (A, B, I, 0), u^T, tin, zero state; each getter returns c_row_Q(id) @ x + d_row_Q(id) @ u for the same Q and id; StateSpace(A,B,C,D) and lsim(sys,u,t) argument order')
    rep.assume('NOT DECIDED: accuracy of lsim, KCL per sample, C dv/dt relations, settling behaviour')
    interps = SR.analyse(prog)
    n = SR.emit(rep, 'R12.space', interps, ['transient'])
    rep.count('space_obligations', n)
    if n < 8: rep.error(f'only {n} index-space obligations in the transient path')
    kinds = {o.kind for o in interps['transient'].obs}
    for need in ('solver-input', 'solver-model', 'matmul'):
        if need not in kinds: rep.error(f'no {need} obligation in the transient path: the solver call / the output products were not typed')
    m, cls = class_of(prog, CS, 'TransientSolution')
    ev = init_self(prog, new_ev(prog, OPAQUE_CIRCUIT), m, cls)
    site = prog.site(m, cls)
    ssm = ev.stores.get(('self', '_ssm'))
    # ---- model = nodal_state_space_model(transform(circuit, w=[0])[0], c_values=..., l_values=...)
    at = ssm.as_atom() if isinstance(ssm, Poly) else None
    ok_net = ok_c = ok_l = None
    if at and at[0] == 'call' and at[1] == ('fn', 'nodal_state_space_model'):
        from ..api import bound_args
        kw = bound_args(prog, at)
        net = kw.get('network')
        want_net = tkey(spec(ev, "transform_circuit(self.circuit, 0, 1e-3)", {'self': A('self'), 'transform_circuit': ev.ref_of(prog.resolve(prog.mod('Circuit.circuit'), 'transform_circuit'))}, m))
        ok_net = net == want_net
        for nm, kind, key in (('c_values', 'capacitor', 'C'), ('l_values', 'inductance', 'L')):
            got = kw.get(nm)
            comps = ev.getattr(ev.getattr(A('self'), 'circuit', m, 0), 'components', m, 0)
            sp = spec(ev, f"{{c.id: c.value['{key}'] for c in self.circuit.components if c.type == '{kind}'}}", {'self': A('self')}, m)
            okx = got is not None and got == tkey(sp)
            if nm == 'c_values': ok_c = okx
            else: ok_l = okx
    rep.ob('R12.wiring', 'model:network@w=0', ok_net, f'_ssm = {ssm!r:.200}', site)
    rep.ob('R12.wiring', 'model:c_values', ok_c, "c_values = {id: value['C']} of the components of kind capacitor, in listing order", site)
    rep.ob('R12.wiring', 'model:l_values', ok_l, "l_values = {id: value['L']} of the components of kind inductance, in listing order", site)
    # ---- inputs
    u = ev.stores.get(('self', '_u'))
    oku = None
    if isinstance(u, Comp) and len(u.gens) == 1:
        src_ok = term_equal(u.gens[0][0], ev.getattr(ssm, 'sources', m, 0)) and not u.gens[0][1]
        el = ev.elem_of(u.gens[0][0], 0)
        sp = ev.fresh().apply(ev.getitem(ev.getattr(A('self'), 'input', m, 0), el), [ev.getattr(A('self'), 'tin', m, 0)], {}, m, 0)
        oku = bool(src_ok and term_equal(u.elt, sp)) if not has_opaque(u) else None
    rep.ob('R12.wiring', 'inputs', oku, f'_u = {u!r:.200}', site)
    # ---- solver call: read off the normal form of what __post_init__ stores (robust to renaming / re-arranging the statements)
    def find_call(k):
        """the key of the call  self.solver(...)  inside a term key"""
        if isinstance(k, tuple):
            if len(k) >= 4 and k[0] == 'call' and k[1] == ('.', 'self', 'solver'): return k
            for x in k:
                r = find_call(x)
                if r is not None: return r
        return None
    sc = None
    for (obj, attr), val in ev.stores.items():
        if obj == 'self' and isinstance(attr, str):
            sc = sc or find_call(tkey(val))
    if sc is None:
        for key in ('solver:model', 'solver:inputs', 'solver:time', 'solver:x0'):
            rep.ob('R12.wiring', key, None, 'no call of self.solver(...) found in what __post_init__ stores', site)
    else:
        args = list(sc[2]); kws = dict(sc[3])
        names = ['ssm', 'y', 't', 'x0']
        amap = {names[i]: a for i, a in enumerate(args) if i < 4}
        amap.update(kws)
        # model record
        model = amap.get('ssm')
        fields = dict(model[2]) if isinstance(model, tuple) and len(model) == 3 and model[0] == 'rec' else {}
        A_k = tkey(ev.getattr(ssm, 'A', m, 0)); B_k = tkey(ev.getattr(ssm, 'B', m, 0))
        okA = fields.get('A') == A_k and fields.get('B') == B_k
        def head(k):
            if isinstance(k, tuple) and len(k) > 1 and k[0] == 'opq' and isinstance(k[1], str) and k[1].startswith('np.'): return k[1][3:]
            try: return Poly(dict(k[1:])).as_atom()[0]
            except Exception: return None
        okC = head(fields.get('C')) in ('eye', 'identity')
        okD = head(fields.get('D')) == 'zeros'
        rep.ob('R12.wiring', 'solver:model', bool(okA and okC and okD), f"StateSpaceModel(A=ssm.A: {fields.get('A') == A_k}, B=ssm.B: {fields.get('B') == B_k}, C=identity: {okC}, D=zeros: {okD})", site)
        want_u = tkey(Poly.atom(('T', tkey(u)))) if u is not None else None
        got_u = amap.get('y')
        oku2 = got_u is not None and want_u is not None and (got_u == want_u or got_u == tkey(Poly.atom(('T', Poly.atom(('.', 'self', '_u')).key()))) or _is_T_of(got_u, tkey(u)))
        rep.ob('R12.wiring', 'solver:inputs', bool(oku2), 'input series handed over as u^T (samples x inputs)', site)
        rep.ob('R12.wiring', 'solver:time', amap.get('t') == tkey(ev.getattr(A('self'), 'tin', m, 0)), 'time grid = self.tin', site)
        rep.ob('R12.wiring', 'solver:x0', head(amap.get('x0')) == 'zeros', 'initial state = zeros(...)', site)
    # ---- getters: c_row_Q(id) @ x + d_row_Q(id) @ u
    for q, acc in (('potential', 'for_potential'), ('voltage', 'voltage'), ('current', 'current')):
        memg = prog.find_member(m, cls, f'get_{q}')
        if not memg:
            rep.ob('R12.wiring', f'get_{q}', None, 'getter missing', site); continue
        evg = new_ev(prog); evg.self_class = (m, cls)
        t = evg.call_fn(memg[1], memg[0], [A('self'), A('id')], {}, {'__parent__': None}, 1)
        ok = None
        if isinstance(t, tuple) and len(t) == 2:
            sp = spec(evg, f"self._ssm.c_row_{acc}(id) @ self._x + self._ssm.d_row_{acc}(id) @ self._u", {'self': A('self'), 'id': A('id')}, m)
            k = repr(tkey(t[1]))
            ok = repr(tkey(sp))[:-1] in k or tkey(sp) == tkey(t[1]) or _inside(tkey(sp), tkey(t[1]))
            if not ok and not has_opaque(t[1]): ok = False
        rep.ob('R12.wiring', f'get_{q}', ok, f'= {t!r:.260}', prog.site(memg[0], memg[1]))
    # ---- continuous solver wrapper: lsim(StateSpace(A, B, C, D) | (A, B, C, D), U=u, T=t[, X0=x0]) for the model / series it is given
    from ..terms import Rec as _Rec
    g = prog.func('SignalProcessing.state_space_model', 'continuous_state_space_solver')
    evs = new_ev(prog)
    ps = [a.arg for a in g.node.args.args]
    t = evs.call_fn(g.node, g.mod, [A(p) for p in ps], {}, {'__parent__': None}, 1)
    def find_ext(k, name):
        if isinstance(k, tuple):
            if len(k) >= 4 and k[0] == 'call' and isinstance(k[1], tuple) and k[1][:1] == ('ext',) and k[1][1].split('.')[-1] == name: return k
            for x in k:
                r = find_ext(x, name)
                if r is not None: return r
        return None
    ls = find_ext(tkey(t), 'lsim')
    if ls is None or len(ps) < 3:
        rep.ob('R12.wiring', 'StateSpace(A,B,C,D)', None, f'lsim call not found in {t!r:.120}', g.site)
        rep.ob('R12.wiring', 'lsim(sys,u,t)', None, 'lsim call not found', g.site)
    else:
        pos = list(ls[2]); kw = dict(ls[3])
        names = ['system', 'U', 'T', 'X0']
        amap = {names[i]: a for i, a in enumerate(pos) if i < 4}; amap.update(kw)
        sysk = amap.get('system')
        ssk = find_ext(sysk, 'StateSpace') if sysk is not None else None
        mats = list(ssk[2]) if ssk is not None else (list(sysk[1]) if isinstance(sysk, tuple) and sysk[:1] == ('tuple',) else None)
        want = [tkey(evs.getattr(A(ps[0]), x, g.mod, 0)) for x in 'ABCD']
        rep.ob('R12.wiring', 'StateSpace(A,B,C,D)', (mats == want) if mats is not None else None, 'the system handed to lsim is (A, B, C, D) of the model, in this order', g.site)
        oku = amap.get('U') == tkey(A(ps[1])) and amap.get('T') == tkey(A(ps[2]))
        rep.ob('R12.wiring', 'lsim(sys,u,t)', bool(oku), 'lsim(system, U=<input series>, T=<time grid>)', g.site)


def solver_call_args(prog):
    """(module, {'ssm','y','t','x0'} -> term key of the arguments of self.solver(...) in TransientSolution.__post_init__, site)"""
    m, cls = class_of(prog, CS, 'TransientSolution')
    ev = init_self(prog, new_ev(prog, OPAQUE_CIRCUIT), m, cls)
    def find_call(k):
        if isinstance(k, tuple):
            if len(k) >= 4 and k[0] == 'call' and k[1] == ('.', 'self', 'solver'): return k
            for x in k:
                r = find_call(x)
                if r is not None: return r
        return None
    sc = None
    for (obj, attr), val in ev.stores.items():
        if obj == 'self' and isinstance(attr, str): sc = sc or find_call(tkey(val))
    if sc is None: return m, None, prog.site(m, cls)
    names = ['ssm', 'y', 't', 'x0']
    amap = {names[i]: a for i, a in enumerate(sc[2]) if i < 4}
    amap.update({k: v for k, v in dict(sc[3]).items()})
    return m, amap, prog.site(m, cls)


def _is_T_of(k, inner):
    """k is the key of  <inner>.T"""
    try:
        at = Poly(dict(k[1:])).as_atom()
        return at[0] == 'T' and (at[1] == inner or at[1] == Poly(dict(inner[1:])).as_atom() or tkey(at[1]) == inner)
    except Exception:
        return False


def _net_at_dc(netkey):
    r = repr(netkey)
    return "'transform_circuit'" in r and "('.', 'self', 'circuit')" in r


def _inside(needle, hay):
    if needle == hay: return True
    if isinstance(hay, tuple): return any(_inside(needle, x) for x in hay)
    return False
