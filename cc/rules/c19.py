"""C19 -- malformed circuits are rejected, not reinterpreted."""
from __future__ import annotations
import ast
from ..api import A, spec, call, call_ref
from ..terms import Evaluator, Poly, Rec, Cond, Opq, Comp, tkey, paths_of, term_equal, has_opaque, same, RAISE
from ..paths import paths, names_in, always_raises, TooManyPaths
from ..report import AnalysisError
from . import translate as T

CONSTRAINED = ('R', 'G', 'C', 'L', 'w', 'P', 'V_ref')


def reduce_pcs(pcs):
    """merge path conditions that differ in the polarity of exactly one literal"""
    sets = [frozenset((repr(tkey(g)), pol) for g, pol in pc) for pc in pcs]
    changed = True
    while changed:
        changed = False
        for a in list(sets):
            for b in list(sets):
                if a is b or a == b: continue
                d = a ^ b
                if len(d) == 2 and len({x[0] for x in d}) == 1:
                    sets = [x for x in sets if x not in (a, b)] + [a & b]
                    changed = True; break
            if changed: break
    return set(sets)


def raise_condition(ev, exc):
    """the condition under which `exc` is raised: OR over the pruned raise sites of (path condition AND guard), after merging
    sites that differ only in the polarity of one path literal (the same raise reached through both arms of an earlier `if`)"""
    hits = [r for r in ev.raises if r['exc'] == exc and r['polarity'] is False]
    hits += [dict(r, guard=ev.negate(r['guard'])) for r in ev.raises if r['exc'] == exc and r['polarity'] is True]
    if not hits: return None
    groups = {}
    for r in hits: groups.setdefault(repr(tkey(r['guard'])), []).append(r)
    disj = []
    for k, rs in groups.items():
        lits = {}
        for r in rs:
            for g, pol in r['pc']: lits[(repr(tkey(g)), pol)] = (g, pol)
        for pcset in reduce_pcs([r['pc'] for r in rs]):
            conj = [lits[x][0] if lits[x][1] else ev.negate(lits[x][0]) for x in sorted(pcset)] + [rs[0]['guard']]
            disj.append(ev.mkbool('and', conj))
    return ev.mkbool('or', disj)


def bool_equiv(a, b, limit=10):
    """are two guard formulas equivalent as PROPOSITIONAL formulas over their comparison atoms (Eq / NotEq of one polynomial are one atom and
    its negation)?  True / False, or None when an atom count above `limit` or an uninterpreted part prevents the table"""
    import itertools
    from ..terms import Cond as _Cond
    atoms = {}
    def norm(x):
        # -> ('T',) ('F',) ('v', key) ('not', f) ('and', fs) ('or', fs) ('ite', c, a, b)
        if x is True: return ('T',)
        if x is False: return ('F',)
        if isinstance(x, _Cond): return ('ite', norm(x.g), norm(x.a), norm(x.b))
        if isinstance(x, Opq) and x.k:
            h = x.k[0]
            if h == 'not': return ('not', norm(x.k[1]))
            if h in ('and', 'or'): return (h, [norm(y) for y in x.k[1:]])
            if h == 'cmp' and x.k[1] == 'NotEq': return ('not', norm(Opq('cmp', 'Eq', *x.k[2:])))
            k = repr(tkey(x))
            if h == 'cmp' and x.k[1] == 'Eq' and len(x.k) == 3 and isinstance(x.k[2], Poly):
                k = min(repr(x.k[2].key()), repr(x.k[2].neg().key()))
            atoms.setdefault(k, len(atoms)); return ('v', k)
        return None
    fa, fb = norm(a), norm(b)
    def bad(f): return f is None or (isinstance(f, tuple) and any(bad(y) for y in (f[1] if f[0] in ('and', 'or') else f[1:]) if isinstance(y, (tuple, list)) or y is None))
    if bad(fa) or bad(fb) or len(atoms) > limit: return None
    def val(f, env_):
        h = f[0]
        if h == 'T': return True
        if h == 'F': return False
        if h == 'v': return env_[f[1]]
        if h == 'not': return not val(f[1], env_)
        if h == 'and': return all(val(y, env_) for y in f[1])
        if h == 'or': return any(val(y, env_) for y in f[1])
        if h == 'ite': return val(f[2], env_) if val(f[1], env_) else val(f[3], env_)
    keys = list(atoms)
    for bits in itertools.product((False, True), repeat=len(keys)):
        env_ = dict(zip(keys, bits))
        if val(fa, env_) != val(fb, env_): return False
    return True


def run(rep, prog, tier):
    from .hidden import no_hidden_state
    rep.rule('R19.state', 'no hidden state in the anchored modules: no function writes a module-level object, no caching decorator / cached property')
    no_hidden_state(rep, 'R19.state', prog, ['Network/network.py', 'Circuit/circuit.py', 'Circuit/components.py', 'Circuit/dump_load.py', 'Network/loaders.py', 'Network/elements.py', 'SignalProcessing/periodic_functions.py', 'SimpleSimulation/schematic.py', 'SimpleSimulation/errors.py'])
    rep.rule('R19.guard', 'for every component-constructor parameter named R G C L w P V_ref, every returning path has passed a raising guard equivalent to param < 0 (own body or a callee it always reaches)')
    rep.rule('R19.load', 'elm.load rejects a missing / non-positive / doubly given reference value')
    rep.rule('R19.invariants', 'Network.__post_init__ / Circuit.__post_init__ raise under the reference-node, uniqueness and single-ground guards on every non-trivial path')
    rep.rule('R19.miss', 'every lookup in a kind / wavetype / element-type dispatch table is a raising lookup whose handlers re-raise (no defaulting .get)')
    rep.rule('R19.id', 'on every returning path of every query method the identifier reaches a raising lookup, a delegated query, or an equality with the reference label')
    guards(rep, prog)
    load_rules(rep, prog)
    invariants(rep, prog)
    table_misses(rep, prog)
    query_ids(rep, prog)


# ---------------------------------------------------------------------------------------------- R19.guard
def guards(rep, prog):
    kinds = T.component_kinds(prog)
    m = prog.mod(T.CP)
    n = 0
    for kind, info in sorted(kinds.items()):
        fn = info['node']
        ps = [a.arg for a in fn.args.args + fn.args.kwonlyargs]
        todo = [p for p in ps if p in CONSTRAINED]
        if not todo: continue
        ev = Evaluator(prog)
        atoms = {p: A(p) for p in ps}
        res = ev.call_fn(fn, m, [], dict(atoms), {'__parent__': None}, 1)
        for p in todo:
            n += 1
            sg = ev.sign(A(p))
            site = info['site']
            if res is RAISE:
                rep.ob('R19.guard', f'{kind}.{p}', None, 'constructor raises on every path', site); continue
            if sg <= {'>0', '=0'}:
                rep.ob('R19.guard', f'{kind}.{p}', True, f'every returning path has {p} >= 0 (negative values raise)', site)
            else:
                rep.ob('R19.guard', f'{kind}.{p}', False,
                       f"components.{info['fn']} accepts a negative {p}: no raising guard `{p} < 0` dominates `return Component(...)`", site)
    rep.count('guard_obligations', n)
    if n < 10:
        raise AnalysisError(f'only {n} constrained constructor parameters found')


def load_rules(rep, prog):
    f = prog.func('Network.elements', 'load')
    site = f.site
    # reference voltage given (I_ref default): must have V_ref > 0 on return
    ev = Evaluator(prog)
    r = call(ev, f, [A('name'), A('P')], {'V_ref': A('V_ref')})
    rep.ob('R19.load', 'V_ref>0', ev.sign(A('V_ref')) == {'>0'} and r is not RAISE, f'sign facts on return: V_ref in {sorted(ev.sign(A("V_ref")))}', site)
    ev = Evaluator(prog)
    r = call(ev, f, [A('name'), A('P')], {'I_ref': A('I_ref')})
    rep.ob('R19.load', 'I_ref>0', ev.sign(A('I_ref')) == {'>0'} and r is not RAISE, f'sign facts on return: I_ref in {sorted(ev.sign(A("I_ref")))}', site)
    ev = Evaluator(prog)
    r = call(ev, f, [A('name'), A('P')], {})
    rep.ob('R19.load', 'none-given', r is RAISE, 'no reference value -> raises' if r is RAISE else f'returns {r!r:.100}', site)
    ev = Evaluator(prog, facts=[(A('V_ref'), '>0'), (A('I_ref'), '>0')])
    r = call(ev, f, [A('name'), A('P')], {'V_ref': A('V_ref'), 'I_ref': A('I_ref')})
    rep.ob('R19.load', 'both-given', r is RAISE, 'both reference values -> raises' if r is RAISE else f'returns {r!r:.100}', site)


# ---------------------------------------------------------------------------------------------- R19.invariants
def invariants(rep, prog):
    # ---- Network
    m = prog.mod('Network.network'); cls = m.defs.get('Network')
    mem = prog.find_member(m, cls, '__post_init__') if cls is not None else None
    if not mem:
        rep.ob('R19.invariants', 'Network:post_init', None, 'Network.__post_init__ not found'); return
    ev = Evaluator(prog); ev.self_class = (m, cls)        # checks factored out into private methods are followed
    ev.call_fn(mem[1], mem[0], [A('self')], {}, {'__parent__': None}, 1)
    site = prog.site(mem[0], mem[1])
    env = {'self': A('self')}
    evs = Evaluator(prog)      # specifications are normalised without the facts learnt from the code
    want = {
        'FloatingGroundNode': ["self.node_zero_label not in self.node_labels and self.number_of_nodes != 0",
                               "self.node_zero_label not in self.node_labels and len(self.node_labels) != 0",
                               "self.node_zero_label not in self.node_labels"],
        'AmbiguousBranchIDs': ["len(set(self.branch_ids)) != len(self.branches)", "len(set(self.branch_ids)) < len(self.branches)",
                               "len(set(self.branch_ids)) != len(self.branch_ids)", "len(set(self.branch_ids)) < len(self.branch_ids)"],
    }
    for exc, forms in want.items():
        cond = raise_condition(ev, exc)
        if cond is None:
            rep.ob('R19.invariants', f'Network:{exc}', False, f'no pruned raise of {exc} found', site); continue
        ok = None; why = ''
        for fsrc in forms:
            if same(cond, evs.truth(spec(evs, fsrc, env, m))):
                ok = True; why = f'raises {exc} exactly under `{fsrc}`'
        if ok is None:
            ok = None if has_opaque(cond) else False
            why = f"raises {exc} under {cond!r:.300}"
        rep.ob('R19.invariants', f'Network:{exc}', ok, why, site)
    # the derived views the guards read
    ev2 = Evaluator(prog)
    bid = prog.find_member(m, cls, 'branch_ids')
    t = ev2.call_fn(bid[1], bid[0], [A('self')], {}, {'__parent__': None}, 1) if bid else None
    sp = spec(ev2, "[b.id for b in self.branches]", env, m)
    rep.ob('R19.invariants', 'Network:branch_ids', True if term_equal(t, sp) else (None if has_opaque(t) else False), f'branch_ids = {t!r:.120}', site)
    nl = prog.find_member(m, cls, 'node_labels')
    t = ev2.call_fn(nl[1], nl[0], [A('self')], {}, {'__parent__': None}, 1) if nl else None
    k = repr(tkey(t))
    ok = "'node1'" in k and "'node2'" in k
    rep.ob('R19.invariants', 'Network:node_labels', True if ok else None, 'node_labels collects node1 and node2 of every branch' if ok else f'{t!r:.160}', site)
    # ---- Circuit
    m = prog.mod('Circuit.circuit'); cls = m.defs.get('Circuit')
    mem = prog.find_member(m, cls, '__post_init__') if cls is not None else None
    if not mem:
        rep.ob('R19.invariants', 'Circuit:post_init', None, 'Circuit.__post_init__ not found'); return
    ev = Evaluator(prog); ev.self_class = (m, cls)
    ev.call_fn(mem[1], mem[0], [A('self')], {}, {'__parent__': None}, 1)
    site = prog.site(mem[0], mem[1])
    empty = evs.truth(spec(evs, "len(self.components) == 0", env, m))
    allowed = {frozenset(), frozenset({(repr(tkey(empty)), False)})}
    gn = "[c.nodes[0] for c in self.components if c.type == 'ground']"
    want = {
        'MultipleGroundNodes': [f"len({gn}) > 1", f"len({gn}) >= 2", f"len({gn}) != 1 and len({gn}) != 0"],
        'AmbiguousComponentID': ["len(set([c.id for c in self.components])) != len(self.components)",
                                 "len(set([c.id for c in self.components])) < len(self.components)",
                                 "len(set(c.id for c in self.components)) != len(self.components)"],
    }
    for exc, forms in want.items():
        hits = [r for r in ev.raises if r['exc'] == exc and r['polarity'] is False]
        good = [r for r in hits if any(same(r['guard'], evs.truth(spec(evs, fsrc, env, m))) for fsrc in forms)]
        if not hits:
            rep.ob('R19.invariants', f'Circuit:{exc}', False, f'no path raises {exc}', site); continue
        if len(good) != len(hits):
            # the raise may be reached through a chain of tests instead of one guard: compare the whole condition (paths and guards) with the
            # specification as propositional formulas over their comparison atoms
            total = raise_condition(ev, exc)
            ne = ev.negate(empty)
            verdicts = []
            for fsrc in forms:
                F = evs.truth(spec(evs, fsrc, env, m))
                verdicts += [bool_equiv(total, F), bool_equiv(total, evs.mkbool('and', [ne, F]))]
            if True in verdicts:
                rep.ob('R19.invariants', f'Circuit:{exc}', True, f'raises {exc} exactly under the specified condition (on every path of a non-empty circuit)', site); continue
        if len(good) != len(hits):
            bad = [r for r in hits if r not in good][0]
            rep.ob('R19.invariants', f'Circuit:{exc}', None if has_opaque(bad['guard']) else False, f"raises {exc} under {bad['guard']!r:.200}", site); continue
        cover = reduce_pcs([r['pc'] for r in good])
        ok = cover <= allowed and bool(cover)
        if not ok and cover:
            # paths that end in ANOTHER of the specified exceptions need not reach this test: (paths of this raise) OR (conditions of the
            # other raises) must cover every non-empty circuit
            lits = {}
            for r in good:
                for g, pol in r['pc']: lits[(repr(tkey(g)), pol)] = g if pol else ev.negate(g)
            C = [evs.mkbool('and', [lits[x] for x in sorted(pc)]) if pc else True for pc in cover]
            others = [raise_condition(ev, e2) for e2 in want if e2 != exc]
            whole = evs.mkbool('or', C + [o for o in others if o is not None])
            if True in (bool_equiv(whole, True), bool_equiv(whole, ev.negate(empty))): ok = True
        rep.ob('R19.invariants', f'Circuit:{exc}', True if ok else False,
               f'raises {exc} on every path of a non-empty circuit' if ok else f'{exc} is only raised on paths {sorted(map(sorted, cover))!r:.300}', site)


# ---------------------------------------------------------------------------------------------- R19.miss
DISPATCH_TABLES = [
    ('Network.loaders', 'network_branch_translators'),
    ('Circuit.dump_load', 'circuit_component_translators'),
    ('SimpleSimulation.schematic', 'element_handlers'),
    ('SignalProcessing.periodic_functions', 'fourier_series_mapping'),
    ('SignalProcessing.periodic_functions', 'periodic_functions'),
    ('SimpleCircuit.CircuitComponentTranslators', 'circuit_translator_map'),
]
# lookups that legitimately default, one line of reason each
MISS_EXCEPTIONS = {
}


def _enclosing(fn_node, target):
    """list of ancestors of target inside fn_node"""
    path = []
    def go(n, stack):
        if n is target:
            path.extend(stack); return True
        for c in ast.iter_child_nodes(n):
            if go(c, stack + [n]): return True
        return False
    go(fn_node, [])
    return path


def table_misses(rep, prog):
    n = 0
    for short, tname in DISPATCH_TABLES:
        try:
            tm = prog.mod(short)
        except KeyError:
            rep.ob('R19.miss', f'{short}.{tname}', None, 'module vanished'); continue
        if tname not in tm.defs:
            rep.ob('R19.miss', f'{short}.{tname}', None, 'table vanished'); continue
        # every function of the package that mentions the table by a name bound to it
        for f in prog.funcs.values():
            if isinstance(f.node, ast.Lambda): continue
            uses = []
            for node in ast.walk(f.node):
                if isinstance(node, ast.Name) and node.id == tname or (isinstance(node, ast.Attribute) and node.attr == tname):
                    r = prog.resolve_expr(f.mod, node) if isinstance(node, (ast.Name, ast.Attribute)) else None
                    if r and r[0] == 'var' and r[1] is tm and r[3] == tname: uses.append(node)
                    elif f.mod is tm and isinstance(node, ast.Name): uses.append(node)
            for u in uses:
                anc = _enclosing(f.node, u)
                if any(isinstance(a, (ast.FunctionDef, ast.Lambda)) and a is not f.node for a in anc): continue   # counted with the inner function
                parent = anc[-1] if anc else None
                key = f'{f.qual}:{tname}'
                site = f"{f.mod.rel}:{getattr(u, 'lineno', 0)}"
                tries = [a for a in anc if isinstance(a, ast.Try)]
                handlers_ok = all(always_raises(h.body) for t in tries for h in t.handlers if _in_body(t, u))
                if isinstance(parent, ast.Subscript) and parent.value is u:
                    n += 1
                    rep.ob('R19.miss', key, True if handlers_ok else False,
                           'raising subscript; every enclosing handler re-raises' if handlers_ok else
                           'lookup miss is caught by a handler that does not raise: an unknown kind is reinterpreted', site)
                elif isinstance(parent, ast.Attribute) and parent.attr == 'get':
                    n += 1
                    rep.ob('R19.miss', key, False, f'{tname}.get(...) returns a default for an unknown kind instead of raising', site)
                elif isinstance(parent, ast.comprehension) or isinstance(parent, ast.ListComp) or (isinstance(parent, ast.Attribute) and parent.attr in ('keys', 'values', 'items')):
                    # filter/iteration idiom: [x for x in table if cond][0] must sit in a try whose IndexError handler raises, or be membership test
                    comp = next((a for a in reversed(anc) if isinstance(a, (ast.ListComp, ast.GeneratorExp))), None)
                    sub = None
                    if comp is not None:
                        ca = _enclosing(f.node, comp)
                        sub = ca[-1] if ca and isinstance(ca[-1], ast.Subscript) else None
                    if sub is not None:
                        n += 1
                        rep.ob('R19.miss', key, True if (handlers_ok) else False,
                               'selection by equality then [0]: a miss raises IndexError, handlers re-raise' if handlers_ok else 'miss is swallowed', site)
                    else:
                        rep.info(f'{key}: table used for iteration/membership at {site}')
    rep.count('table_lookups', n)


def _in_body(t: ast.Try, node) -> bool:
    return any(node is x for b in t.body for x in ast.walk(b))


# ---------------------------------------------------------------------------------------------- R19.id
QUERY_SCOPE = ['Network.NodalAnalysis.solution', 'Network.NodalAnalysis.bias_point_analysis', 'Network.NodalAnalysis.state_space_model',
               'Circuit.solution', 'SimpleCircuit.DiagramSolution']
QUERY_PREFIX = ('get_', 'c_row', 'd_row', '_row', 'draw_')
ID_EXCEPTIONS = {
    'SimpleCircuit.DiagramSolution::EmptyDiagramSolution': 'placeholder solution of a schematic without analysis: returns empty label text by design',
}
DELEGATES = QUERY_PREFIX + ('index', 'get_element')


def _validates(node, idname, follow=None, consts=None) -> str | None:
    """does this statement/expression validate identifier `idname`? returns a reason or None"""
    # a comprehension / loop variable that runs over a display of delegated queries: (q(id) for q in (self.get_voltage, self.get_current))
    local_delegates = set()
    for n in ast.walk(node):
        if isinstance(n, (ast.comprehension, ast.For)) and isinstance(n.target, ast.Name) and isinstance(n.iter, (ast.Tuple, ast.List)) and n.iter.elts:
            lasts = [(e_.attr if isinstance(e_, ast.Attribute) else getattr(e_, 'id', '')) for e_ in n.iter.elts]
            if all(l_ and (l_.startswith(DELEGATES) or l_ in DELEGATES) for l_ in lasts): local_delegates.add(n.target.id)
    for n in ast.walk(node):
        if isinstance(n, ast.Call) and isinstance(n.func, ast.Name) and n.func.id in local_delegates and any(idname in names_in(a) for a in list(n.args) + [k.value for k in n.keywords]):
            return f'delegated to each query of a display through `{n.func.id}`'
        # getattr(obj, q)(id) where q is a parameter bound to a literal query name at the call site
        if isinstance(n, ast.Call) and isinstance(n.func, ast.Call) and getattr(n.func.func, 'id', '') == 'getattr' and len(n.func.args) == 2 \
                and any(idname in names_in(a) for a in n.args):
            q = n.func.args[1]
            qv = q.value if isinstance(q, ast.Constant) else ((consts or {}).get(q.id) if isinstance(q, ast.Name) else None)
            if isinstance(qv, str) and (qv.startswith(DELEGATES) or qv in DELEGATES):
                return f'delegated to {qv}() through getattr'
        if isinstance(n, ast.Subscript) and isinstance(n.ctx, ast.Load) and idname in names_in(n.slice):
            # dict.get style defaults are calls, not subscripts: a subscript raises on a miss
            return f'raising lookup {ast.unparse(n)[:50]}'
        if isinstance(n, ast.Call):
            argnames = set()
            for a in list(n.args) + [k.value for k in n.keywords]: argnames |= names_in(a)
            if idname in argnames:
                fn = n.func.attr if isinstance(n.func, ast.Attribute) else getattr(n.func, 'id', '')
                if fn.startswith(DELEGATES) or fn in DELEGATES:
                    return f'delegated to {fn}()'
                # operator.methodcaller('get_voltage', id): the delegated query, applied later to each solution
                if fn == 'methodcaller' and n.args and isinstance(n.args[0], ast.Constant) and isinstance(n.args[0].value, str) \
                        and (n.args[0].value.startswith(DELEGATES) or n.args[0].value in DELEGATES) and any(idname in names_in(a) for a in n.args[1:]):
                    return f'delegated to {n.args[0].value}() through methodcaller'
                # a call through a parameter that was bound to a delegated query at the call site (helper(getter, id): getter(obj, id))
                if isinstance(n.func, ast.Name) and (consts or {}).get(n.func.id) == '@delegate':
                    return f'delegated to the query passed as `{n.func.id}`'
                if follow is not None:
                    r = follow(n, idname)
                    if r: return r
    return None


def _path_validates(path, idname, follow=None, consts=None):
    v = None
    for step in path:
        if step[0] == 'guard':
            tst, val = step[1], step[2]
            while isinstance(tst, ast.UnaryOp) and isinstance(tst.op, ast.Not): tst, val = tst.operand, not val
            if isinstance(tst, ast.Compare) and len(tst.ops) == 1 and idname in names_in(tst):
                op = tst.ops[0]
                other = ast.unparse(tst.comparators[0] if idname in names_in(tst.left) else tst.left)
                if (isinstance(op, ast.Eq) and val) or (isinstance(op, ast.NotEq) and not val):
                    if 'zero' in other or 'ground' in other: v = f'equals the reference label ({other})'
                if (isinstance(op, ast.In) and val) or (isinstance(op, ast.NotIn) and not val):
                    if ast.unparse(tst.left) == idname: v = f'membership established ({ast.unparse(tst)[:50]})'
            if v is None:
                # the test itself is evaluated on this path: a raising lookup / delegated query inside it (e.g. under a walrus) validates
                only_membership = isinstance(tst, ast.Compare) and len(tst.ops) == 1 and isinstance(tst.ops[0], (ast.In, ast.NotIn)) and ast.unparse(tst.left) == idname
                sub = tst.comparators[0] if only_membership else tst
                v = _validates(sub, idname, follow, consts)
            if v is None and isinstance(tst, ast.Call) and val:
                fnm = tst.func.attr if isinstance(tst.func, ast.Attribute) else getattr(tst.func, 'id', '')
                argn = set()
                for a_ in list(tst.args) + [k_.value for k_ in tst.keywords]: argn |= names_in(a_)
                if idname in argn and ('zero' in fnm or 'ground' in fnm or 'reference' in fnm):
                    v = f'is the reference node ({fnm}())'
        elif step[0] in ('stmt', 'return', 'loop'):
            node = step[1]        # a loop validates like the comprehension it stands for (iterable and body)
            v = v or _validates(node, idname, follow, consts)
        if v: break
    return v


def _unvalidated_path(fn, idname, follow=None, consts=None):
    """first returning path of `fn` on which `idname` is never validated (None when every path validates)"""
    allp = list(paths(fn.body))
    for path in allp:
        if path[-1][0] != 'return': continue
        if not _path_validates(path, idname, follow, consts):
            return path, allp
    return None, allp


def _follower(prog, m, cls, depth=0, seen=()):
    """delegation to a helper of the same class / module counts when the helper validates the parameter
    that receives the identifier on each of its returning paths"""
    def follow(call, idname):
        if depth >= 3: return None
        target, is_method = None, False
        f = call.func
        if isinstance(f, ast.Attribute) and isinstance(f.value, ast.Name) and f.value.id == 'self' and cls is not None:
            for cm, cn in prog.mro(m, cls):
                for x in cn.body:
                    if isinstance(x, ast.FunctionDef) and x.name == f.attr: target, is_method = (cm, x), True; break
                if target: break
        elif isinstance(f, ast.Name):
            r = prog.resolve(m, f.id)
            if r and r[0] == 'func': target = (r[1], r[2])
        if target is None and isinstance(f, ast.Attribute) and not (isinstance(f.value, ast.Name) and f.value.id == 'self'):
            # a method of another object of the package (a helper object built from self): followed when the method name is unique in the package
            cands = [(fm, fc, x) for fm in prog.modules.values() for fc in fm.defs.values() if isinstance(fc, ast.ClassDef)
                     for x in fc.body if isinstance(x, ast.FunctionDef) and x.name == f.attr]
            if len(cands) == 1:
                tm_, tc_, tx_ = cands[0]
                params_ = [a.arg for a in tx_.args.args][1:]
                pn_ = None
                for i, a in enumerate(call.args):
                    if isinstance(a, ast.Name) and a.id == idname and i < len(params_): pn_ = params_[i]
                for k in call.keywords:
                    if isinstance(k.value, ast.Name) and k.value.id == idname and k.arg in params_: pn_ = k.arg
                if pn_ is not None and id(tx_) not in seen:
                    try:
                        bad, allp = _unvalidated_path(tx_, pn_, _follower(prog, tm_, tc_, depth + 1, seen + (id(tx_),)), {})
                    except TooManyPaths:
                        return None
                    if bad is None and any(p[-1][0] == 'return' for p in allp):
                        return f'delegated to {tc_.name}.{tx_.name}() which validates `{pn_}` on each returning path'
            return None
        if target is None or id(target[1]) in seen: return None
        tm, tf = target
        params = [a.arg for a in tf.args.args][1 if is_method else 0:]
        pname = None
        for i, a in enumerate(call.args):
            if isinstance(a, ast.Name) and a.id == idname and i < len(params): pname = params[i]
        for k in call.keywords:
            if isinstance(k.value, ast.Name) and k.value.id == idname and k.arg in params: pname = k.arg
        if pname is None: return None
        consts = {}
        for i, a in enumerate(call.args):
            if isinstance(a, ast.Constant) and isinstance(a.value, str) and i < len(params): consts[params[i]] = a.value
        for k in call.keywords:
            if isinstance(k.value, ast.Constant) and isinstance(k.value.value, str) and k.arg in params: consts[k.arg] = k.value.value
        def is_delegate(a_):
            last = a_.attr if isinstance(a_, ast.Attribute) else (a_.id if isinstance(a_, ast.Name) else '')
            return bool(last) and (last.startswith(DELEGATES) or last in DELEGATES)
        for i, a in enumerate(call.args):
            if i < len(params) and is_delegate(a): consts[params[i]] = '@delegate'
        for k in call.keywords:
            if k.arg in params and is_delegate(k.value): consts[k.arg] = '@delegate'
        try:
            bad, allp = _unvalidated_path(tf, pname, _follower(prog, tm, cls if is_method else None, depth + 1, seen + (id(tf),)), consts)
        except TooManyPaths:
            return None
        if bad is None and any(p[-1][0] == 'return' for p in allp):
            return f'delegated to helper {tf.name}() which validates `{pname}` on each returning path'
        return None
    return follow


def _semantic_id(prog, m, c, fn, idname, extra):
    """the same question on the evaluated method (helpers, enums, getattr with constant names, methodcaller ... are unfolded by E1): on every
    returning path the identifier is used as the key of a raising lookup, handed to a delegated query, or established by a membership / is-the-
    reference test.  True / False / None with a reason"""
    from ..terms import Evaluator, paths_of, tkey, Poly, RAISE
    from ..api import A
    ev = Evaluator(prog); ev.self_class = (m, c)
    args = [A('self'), A(idname)] + [A(a.arg) for a in fn.args.args[2:]]
    try:
        t = ev.call_fn(fn, m, args, {}, {'__parent__': None}, 1)
    except Exception as e:
        return None, f'evaluation failed: {e!r:.80}'
    idk = tkey(A(idname)); ids = repr(idk)
    def uses(k):
        # a raising subscript keyed by the identifier, or a query / index call that receives it
        found = []
        def walk(x):
            if isinstance(x, tuple):
                if len(x) == 3 and x[0] == '[]' and ids in repr(x[2]): found.append('raising lookup')
                if len(x) >= 3 and x[0] == 'call' and isinstance(x[1], tuple) and x[1][:1] == ('.',) and isinstance(x[1][-1], str) \
                        and (x[1][-1].startswith(DELEGATES) or x[1][-1] in DELEGATES) and ids in repr(x[2:]): found.append('delegated to ' + x[1][-1] + '()')
                for y in x: walk(y)
        walk(k)
        return found
    verdicts = []
    from ..terms import _is_callable_term
    for pc, leaf in paths_of(t):
        if leaf is RAISE: continue
        if _is_callable_term(leaf) and not isinstance(leaf, Poly):
            # a returned function (a time function): what it computes when called
            try: leaf = ev.apply(leaf, [A('__t')], {}, m, 1)
            except Exception: pass
        why = uses(tkey(leaf))
        other_use = False
        for g, pol in pc:
            # (paths_of hands the guards over as the text of their keys)
            r_ = g if isinstance(g, str) else repr(tkey(g))
            if ids not in r_: continue
            is_in = r_.startswith("('opq', 'in', " + ids + ',')
            is_eq = r_.startswith("('opq', 'cmp', 'Eq',")
            if "('[]', " in r_ and (", " + ids + ")") in r_: why.append('raising lookup while evaluating a test')        # network[id] read by the test itself
            elif is_in and pol: why.append('membership established')
            elif is_eq and pol and ('zero' in r_ or 'ground' in r_): why.append('equals the reference label')
            elif is_in or is_eq: pass          # a membership / equality test that FAILED on this path establishes nothing
            else:
                u_ = ['raising lookup'] if ("('[]', " in r_ and (", " + ids + ")") in r_) else []
                why += u_
                if not u_: other_use = True
        if why: verdicts.append(True)
        elif ids not in repr(tkey(leaf)) and not other_use: verdicts.append(False)
        else: verdicts.append(None)
    if not verdicts: return None, 'no returning path was evaluated'
    if all(v is True for v in verdicts): return True, f'{len(verdicts)} evaluated path(s): the identifier keys a raising lookup / reaches a delegated query on each'
    if any(v is False for v in verdicts): return False, 'an evaluated path returns without using the identifier at all'
    return None, 'an evaluated path uses the identifier in a way that was not recognised'


def query_ids(rep, prog):
    n = 0
    for short in QUERY_SCOPE:
        try: m = prog.mod(short)
        except KeyError:
            rep.ob('R19.id', short, None, 'module vanished'); continue
        for cname, c in m.defs.items():
            if not isinstance(c, ast.ClassDef): continue
            if f'{short}::{cname}' in ID_EXCEPTIONS:
                rep.info(f'{short}::{cname} excepted: {ID_EXCEPTIONS[f"{short}::{cname}"]}'); continue
            if any(ast.unparse(b).endswith('Protocol') for b in c.bases): continue
            for fn in c.body:
                if not isinstance(fn, ast.FunctionDef) or not fn.name.startswith(QUERY_PREFIX): continue
                if any('abstractmethod' in d for d in prog.decorators(fn)): continue
                if len(fn.args.args) < 2: continue
                idname = fn.args.args[1].arg
                key = f'{short}::{cname}.{fn.name}({idname})'
                site = prog.site(m, fn)
                n += 1
                try:
                    bad, allp = _unvalidated_path(fn, idname, _follower(prog, m, c))
                except TooManyPaths:
                    rep.ob('R19.id', key, None, 'too many paths', site); continue
                sem = None
                if bad is not None:
                    sem = _semantic_id(prog, m, c, fn, idname, None)
                if bad is None:
                    rep.ob('R19.id', key, True, f'{sum(1 for p in allp if p[-1][0] == "return")} returning path(s), identifier validated on each', site)
                elif sem[0] is True:
                    rep.ob('R19.id', key, True, sem[1], site)
                elif sem[0] is None:
                    rep.ob('R19.id', key, None, f'not decided: {sem[1]}', site)
                else:
                    gs = [f"{ast.unparse(s[1])[:60]}={'T' if s[2] else 'F'}" for s in bad if s[0] == 'guard']
                    rep.ob('R19.id', key, False,
                           f"a returning path never validates `{idname}`: guards [{'; '.join(gs)}] -> `{ast.unparse(bad[-1][1])[:80]}` "
                           f"(an unknown identifier yields a value instead of an exception)", site)
    rep.count('query_methods', n)
    if n < 20:
        raise AnalysisError(f'only {n} query methods found')
