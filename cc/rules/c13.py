"""C13 -- schematic drawings are read as the netlist they depict: symbol -> component table, reversal rule, degree conversion, rounding path."""
from __future__ import annotations
import ast
from ..api import A, spec, call_ref
from ..terms import Evaluator, Poly, Rec, Cond, Opq, Comp, Ref, tkey, paths_of, term_equal, has_opaque, compare_terms, as_poly
from ..report import AnalysisError

TRM = 'SimpleCircuit.CircuitComponentTranslators'
ELM = 'SimpleCircuit.Elements'
PAR = 'SimpleCircuit.DiagramParser'

# symbol class -> (component kind, {value key: expression over `element`}, source?)      (None = translates to nothing)
SYMBOLS = {
    'Resistor': ('resistor', {'R': "element.R"}, False),
    'Conductance': ('conductance', {'G': "element.G"}, False),
    'Impedance': ('impedance', {'R': "real(element.Z)", 'X': "imag(element.Z)"}, False),
    'Capacitor': ('capacitor', {'C': "element.C"}, False),
    'Inductance': ('inductance', {'L': "element.L"}, False),
    'Lamp': ('lamp', {'P': "element.P_ref", 'V_ref': "element.V_ref"}, False),
    'VoltageSource': ('dc_voltage_source', {'V': "real(element.V)"}, True),
    'CurrentSource': ('dc_current_source', {'I': "real(element.I)"}, True),
    'ComplexVoltageSource': ('complex_voltage_source', {'V_real': "real(element.V)", 'V_imag': "imag(element.V)"}, True),
    'ComplexCurrentSource': ('complex_current_source', {'I_real': "real(element.I)", 'I_imag': "imag(element.I)"}, True),
    'ACVoltageSource': ('ac_voltage_source', {'V': "element.V", 'w': "element.w", 'phi': 'PHI'}, True),
    'ACCurrentSource': ('ac_current_source', {'I': "element.I", 'w': "element.w", 'phi': 'PHI'}, True),
    'RectVoltageSource': ('periodic_voltage_source', {'V': "element.V", 'w': "element.w", 'phi': 'PHI', 'wavetype': "'rect'"}, True),
    'RectCurrentSource': ('periodic_current_source', {'I': "element.I", 'w': "element.w", 'phi': 'PHI', 'wavetype': "'rect'"}, True),
    'TriangleVoltageSource': ('periodic_voltage_source', {'V': "element.V", 'w': "element.w", 'phi': 'PHI', 'wavetype': "'tri'"}, True),
    'TriangleCurrentSource': ('periodic_current_source', {'I': "element.I", 'w': "element.w", 'phi': 'PHI', 'wavetype': "'tri'"}, True),
    'SawtoothVoltageSource': ('periodic_voltage_source', {'V': "element.V", 'w': "element.w", 'phi': 'PHI', 'wavetype': "'saw'"}, True),
    'SawtoothCurrentSource': ('periodic_current_source', {'I': "element.I", 'w': "element.w", 'phi': 'PHI', 'wavetype': "'saw'"}, True),
    'RealVoltageSource': ('dc_voltage_source', {'V': "real(element.V)", 'R': "element.R"}, 'lossy'),
    'RealCurrentSource': ('dc_current_source', {'I': "real(element.I)", 'G': "element.G"}, 'lossy'),
    'LabeledLine': ('short_circuit', {}, 'nodes-only'),
    'Ground': ('ground', {}, False),
}
NOTHING = {'Line', 'Node', 'LabelNode', 'VoltageLabel', 'CurrentLabel', 'PowerLabel', 'Element'}
UNTRANSLATABLE = {'Admittance': 'raises UnknownTranslator (outside C13\'s symbol set)', 'Switch': 'handled by the switch rule', 'Schematic': 'the drawing itself'}
PHI = "element.phi*pi/180 if element.deg else element.phi"


def run(rep, prog, tier):
    from .hidden import no_hidden_state
    rep.rule('R13.state', 'no hidden state in the anchored modules: no function writes a module-level object, no caching decorator / cached property')
    no_hidden_state(rep, 'R13.state', prog, ['SimpleCircuit/DiagramParser.py', 'SimpleCircuit/DiagramTranslator.py', 'SimpleCircuit/CircuitComponentTranslators.py', 'SimpleCircuit/Elements.py'])
    rep.rule('R13.table', 'every symbol class is a key of circuit_translator_map (or a listed exception); each translator builds the matching component kind with the symbol\'s own quantities, id = element.name')
    rep.rule('R13.reverse', 'ideal-source translators: nodes = (n0, n1) unless is_reverse then (n1, n0), value = X unless is_reverse then -X for one and the same X; source classes store X unless reverse then -X')
    rep.rule('R13.deg', 'phi*pi/180 if element.deg else phi on the sinusoidal / periodic translators')
    rep.rule('R13.labels', 'automatic node numbers skip every label already in use (loop until free); user labels name the representative of their node')
    rep.rule('R13.round', 'every terminal coordinate read by the parser is rounded by the same function (same digits for x and y); every terminal -> label lookup goes through the equipotential map; plain wires translate to nothing; switch open -> R = inf, closed -> 1e-12')
    rep.assume('NOT DECIDED: wire-closure on actual coordinates, invariance under rotation / translation / rescaling / splitting / insertion order (schemdraw geometry at run time)')
    m = prog.mod(TRM); em = prog.mod(ELM)
    table = {k: (kn, vn) for k, kn, vn in prog.table(TRM, 'circuit_translator_map')}
    # ---- exhaustiveness: symbol classes defined in Elements.py
    classes = [n for n, c in em.defs.items() if isinstance(c, ast.ClassDef)]
    def drawable(c):
        # a symbol is a schemdraw element: some class of its hierarchy derives from a schemdraw.elements class
        return any('schemdraw.elements' in ast.unparse(b) or ast.unparse(b).split('.')[0] == 'extension' for _, cc_ in prog.mro(em, c) for b in cc_.bases)
    symbol_like = [n for n in classes if n not in ('SwitchState', 'SimpleCircuitElement', 'Schematic') and (drawable(em.defs[n]) or n in table)]
    if len(symbol_like) < 20: rep.error(f'only {len(symbol_like)} symbol classes recognised in Elements.py (33 confirmed)')
    for cname in symbol_like:
        if cname in UNTRANSLATABLE and cname not in table:
            rep.info(f'{cname}: {UNTRANSLATABLE[cname]}'); continue
        rep.ob('R13.table', f'{cname}:in-map', cname in table, 'has a translator' if cname in table else f'symbol class {cname} has no entry in circuit_translator_map: drawing it raises UnknownTranslator', prog.site(em, em.defs[cname]))
    wt = {}
    pf = prog.mod('SignalProcessing.periodic_functions')
    for cn, key in (('RectFunction', 'rect'), ('TriFunction', 'tri'), ('SawFunction', 'saw')):
        wt[key] = cn
    for cname, (kn, vn) in sorted(table.items()):
        r = prog.resolve_expr(m, vn)
        site = prog.site(m, vn)
        if r is None or r[0] != 'func':
            rep.ob('R13.table', f'{cname}:translator', None, 'translator not resolved', site); continue
        fn = r[2]
        ev = Evaluator(prog)
        ev.opaque_fns |= set()
        t = call_ref(ev, r[1], fn, [A('element'), A('nodes')])
        if cname in NOTHING:
            rep.ob('R13.table', f'{cname}:nothing', t is None, 'translates to no component' if t is None else f'yields {t!r:.80}', site); continue
        if cname == 'Switch':
            switch_rule(rep, prog, ev, t, site); continue
        if cname not in SYMBOLS:
            rep.ob('R13.table', f'{cname}:spec', None, 'no specification for this symbol class', site); continue
        kind, values, src = SYMBOLS[cname]
        leaves = [l for _, l in paths_of(t)]
        comp = t
        if not all(isinstance(l, Rec) and l.cls == 'Component' for l in leaves):
            rep.ob('R13.table', f'{cname}:component', None, f'does not return Component(...): {t!r:.120}', site); continue
        lf = leaves[0]
        okk = all(l.f.get('type') == kind for l in leaves)
        rep.ob('R13.table', f'{cname}:kind', okk, f"builds kind '{lf.f.get('type')}'" + ('' if okk else f", expected '{kind}'"), site)
        okid = all(term_equal(l.f.get('id'), ev.getattr(A('element'), 'name', m, 0)) for l in leaves)
        rep.ob('R13.table', f'{cname}:id', okid, f"id = {lf.f.get('id')!r}", site)
        n0, n1 = ev.getitem(A('nodes'), Poly.const(0)), ev.getitem(A('nodes'), Poly.const(1))
        rev = ev.getattr(A('element'), 'is_reverse', m, 0)
        # nodes
        nodes = t.f.get('nodes') if isinstance(t, Rec) else None
        if kind == 'ground':
            okn = isinstance(nodes, tuple) and len(nodes) == 1 and term_equal(nodes[0], n0)
            rep.ob('R13.table', f'{cname}:nodes', okn, f'nodes = {nodes!r}', site)
        elif src:
            spn = spec(ev, "(nodes[0], nodes[1]) if not element.is_reverse else (nodes[1], nodes[0])", {'element': A('element'), 'nodes': A('nodes')}, m)
            rep.ob('R13.reverse', f'{cname}:nodes', compare_terms(nodes, spn), f'nodes = {nodes!r:.160}', site, lhs=nodes, rhs=spn)
        else:
            okn = isinstance(nodes, tuple) and len(nodes) == 2 and term_equal(nodes[0], n0) and term_equal(nodes[1], n1)
            rep.ob('R13.table', f'{cname}:nodes', okn if nodes is not None and not has_opaque(nodes) else None, f'nodes = {nodes!r:.120}', site)
        # values
        val = t.f.get('value') if isinstance(t, Rec) else None
        if not isinstance(val, dict):
            rep.ob('R13.table', f'{cname}:values', None, f'value = {val!r:.100}', site); continue
        for key, src_expr in values.items():
            got = val.get(key)
            if key == 'wavetype':
                want = src_expr.strip("'")
                rep.ob('R13.table', f'{cname}:value:{key}', got == want, f"wavetype = {got!r}", site); continue
            if src_expr == 'PHI':
                sp = spec(ev, PHI, {'element': A('element')}, m)
                rep.ob('R13.deg', cname, compare_terms(got, sp), f'phi = {got!r:.160}', site, lhs=got, rhs=sp); continue
            base = spec(ev, src_expr, {'element': A('element')}, m)
            is_signed = src is True and key in ('V', 'I', 'V_real', 'V_imag', 'I_real', 'I_imag')
            if is_signed:
                sp = ev.fresh().mkcond(rev, ev.fresh().lift1(lambda x: as_poly(x).neg(), base), base)
                rep.ob('R13.reverse', f'{cname}:value:{key}', compare_terms(got, sp), f'{key} = {got!r:.160}', site, lhs=got, rhs=sp)
            elif src == 'lossy' and key in ('V', 'I'):
                sp = ev.fresh().mkcond(rev, ev.fresh().lift1(lambda x: as_poly(x).neg(), base), base)
                c = compare_terms(got, sp)
                rep.ob('R13.table', f'{cname}:value:{key}', c, f'{key} = {got!r:.160}', site)
            else:
                rep.ob('R13.table', f'{cname}:value:{key}', compare_terms(got, base), f'{key} = {got!r:.120}', site, lhs=got, rhs=base)
    classes_reverse(rep, prog)
    rounding(rep, prog)
    labels_rule(rep, prog)


def switch_rule(rep, prog, ev, t, site):
    leaves = paths_of(t)
    got = {}
    for pc, l in leaves:
        if isinstance(l, Rec) and l.cls == 'Component' and l.f.get('type') == 'resistor' and isinstance(l.f.get('value'), dict):
            R = l.f['value'].get('R')
            gk = ' '.join(k for k, _ in pc)
            pol = [v for _, v in pc]
            got[(('OPEN' in gk), tuple(pol))] = R
    vals = [repr(v) for v in got.values()]
    ok = any('inf' in v for v in vals) and any('1/1000000000000' in v for v in vals) and len(got) == 2
    open_first = None
    for (is_open_guard, pol), R in got.items():
        if is_open_guard and pol and pol[0] is True: open_first = 'inf' in repr(R)
    rep.ob('R13.round', 'switch', bool(ok and open_first), f'switch -> resistor with R in {vals} (open -> inf, closed -> 1e-12)', site)


def classes_reverse(rep, prog):
    """a source symbol constructed with quantity X and `reverse` reports X unless reversed, then -X -- read off the value of its V / I property on
    the constructed record (however the constructor stores it)"""
    from ..prog import params_of
    em = prog.mod(ELM)
    n = 0
    for cname, c in sorted(em.defs.items()):
        if not isinstance(c, ast.ClassDef): continue
        init = prog.find_member(em, c, '__init__')
        if not init or not isinstance(init[1], ast.FunctionDef): continue
        pos, _, _, _, kwonly, _ = params_of(init[1])
        params = pos[1:] + kwonly
        q = 'V' if 'V' in params else ('I' if 'I' in params else None)
        if q is None or 'reverse' not in params: continue
        n += 1
        ev = Evaluator(prog)
        kw = {p_: (A('X') if p_ == q else A(p_)) for p_ in params}
        sym = ev.construct(ev.ref_of(('class', em, c)), [], kw, 1)
        site = prog.site(init[0], init[1])
        if not isinstance(sym, Rec):
            rep.ob('R13.reverse', f'class:{cname}', None, f'construction not followed: {sym!r:.80}', site); continue
        v = ev.getattr(sym, q, em, 1)
        sp = spec(ev, "X if not reverse else -X", {'X': A('X'), 'reverse': A('reverse')}, em)
        rep.ob('R13.reverse', f'class:{cname}', compare_terms(v, sp), f'{q} of {cname}({q}=X, reverse) = {v!r}', site, lhs=v, rhs=sp)
        prop = prog.find_member(em, c, q)
        okp = bool(prop and isinstance(prop[1], ast.FunctionDef) and prog.is_property(prop[1]))
        rep.ob('R13.reverse', f'class:{cname}:property', okp, f'{q} is a read-only property of the symbol', prog.site(prop[0], prop[1]) if prop else site)
    if n < 10: rep.error(f'only {n} source symbol classes with a reversal rule found')


def _walk_key(k):
    yield k
    if isinstance(k, (tuple, list, frozenset)):
        for x in k:
            yield from _walk_key(x)


def _unrounded_reads(m):
    """(good, bad) reads of `.absanchors` in a module: a read is good when the coordinate it selects is handed to round_node directly, also
    through a local name bound to the anchor table or to the selected point"""
    good, bad = 0, []
    for fn in [n for n in ast.walk(m.tree) if isinstance(n, (ast.FunctionDef, ast.Lambda))]:
        parents = {}
        for n in ast.walk(fn):
            for ch in ast.iter_child_nodes(n): parents[id(ch)] = n
        own = [n for n in ast.walk(fn) if isinstance(n, ast.Attribute) and n.attr == 'absanchors'
               and not any(isinstance(x, (ast.FunctionDef, ast.Lambda)) and x is not fn and any(y is n for y in ast.walk(x)) for x in ast.walk(fn))]
        def consumed(n, depth=0):
            """is the value of expression n rounded before any other use?"""
            p = parents.get(id(n))
            if isinstance(p, ast.Subscript) and p.value is n and isinstance(p.ctx, ast.Load): return consumed(p, depth)
            if isinstance(p, ast.Call) and n in p.args and ast.unparse(p.func).split('.')[-1] == 'round_node': return True
            if isinstance(p, ast.Call) and isinstance(p.func, ast.Attribute) and p.func.value is n and p.func.attr == 'get': return consumed(p, depth)
            if isinstance(p, ast.Assign) and p.value is n and len(p.targets) == 1 and isinstance(p.targets[0], ast.Name) and depth < 3:
                name = p.targets[0].id
                uses = [x for x in ast.walk(fn) if isinstance(x, ast.Name) and x.id == name and isinstance(x.ctx, ast.Load)]
                stores = [x for x in ast.walk(fn) if isinstance(x, ast.Name) and x.id == name and isinstance(x.ctx, ast.Store)]
                # (the name may be re-bound, as long as every binding is such a coordinate read and every use is rounded)
                same_kind = all(isinstance(parents.get(id(x_)), ast.Assign) and any(isinstance(y_, ast.Attribute) and y_.attr == 'absanchors' for y_ in ast.walk(parents[id(x_)].value)) for x_ in stores)
                return (len(stores) == 1 or same_kind) and bool(uses) and all(consumed(u, depth + 1) for u in uses)
            return False
        for n in own:
            if consumed(n): good += 1
            else: bad.append(n)
    return good, bad


def rounding(rep, prog):
    from ..terms import compare_comps
    pm = prog.mod(PAR); em = prog.mod(ELM)
    ELMREF = Ref('module', em, None, ELM)
    # reads of absanchors in the parser / translator modules must be rounded by round_node (or go through get_nodes)
    bad = []; good = 0
    for m in (pm, prog.mod('SimpleCircuit.DiagramTranslator')):
        g_, b_ = _unrounded_reads(m)
        good += g_; bad += [(m, n) for n in b_]
    for m, n in bad:
        rep.ob('R13.round', f'{m.short}:absanchors@{_fn_of(m, n)}', False, 'terminal coordinate read without rounding: coincident terminals may be seen as distinct nodes', prog.site(m, n))
    uses_get_nodes = any(isinstance(n, ast.Call) and ast.unparse(n.func).split('.')[-1] == 'get_nodes' for n in ast.walk(pm.tree))
    rep.ob('R13.round', 'parser:rounded-reads', False if bad else (True if good >= 1 or uses_get_nodes else None), f'{good} coordinate reads, all through round_node')
    # round_node: same ndigits for x and y -- read off the value it returns
    f = prog.func(ELM, 'round_node')
    ev = Evaluator(prog)
    t = call_ref(ev, em, f.node, [A('node')])
    rounds = {}
    for k in _walk_key(tkey(t)):
        if isinstance(k, tuple) and len(k) >= 2 and k[0] == 'round':
            for co in ('x', 'y'):
                if k[1] == tkey(ev.getattr(A('node'), co, em, 0)): rounds.setdefault(co, set()).add(k[2:])
    raw = [co for co in ('x', 'y') if any(k == ('.', 'node', co) for k in _walk_key(tkey(t))) and co not in rounds]
    if set(rounds) == {'x', 'y'} and all(len(v) == 1 for v in rounds.values()):
        oks = rounds['x'] == rounds['y']
    elif rounds and (raw or len(rounds) == 1): oks = False
    else: oks = None
    rep.ob('R13.round', 'round_node:same-digits', oks, f'x and y are rounded by one and the same rule: {t!r:.120}', f.site)
    g = prog.func(ELM, 'get_nodes')
    ev = Evaluator(prog); ev.opaque_fns.add((ELM, 'round_node'))
    t = call_ref(ev, em, g.node, [A('element')])
    leaves = [l for _, l in paths_of(t)]
    def rounded_list(l):
        if isinstance(l, (list, tuple)):
            if all(isinstance(x, Poly) and isinstance(x.as_atom(), tuple) and x.as_atom()[:2] == ('call', ('fn', 'round_node')) for x in l): return True
            return False if l and not any(has_opaque(x) for x in l) else (True if not l else None)
        if isinstance(l, Comp):
            at = l.elt.as_atom() if isinstance(l.elt, Poly) else None
            return True if isinstance(at, tuple) and at[:2] == ('call', ('fn', 'round_node')) else (None if has_opaque(l.elt) else False)
        return None
    vs = [rounded_list(l) for l in leaves]
    okg = False if any(v is False for v in vs) else (None if any(v is None for v in vs) or not vs else True)
    rep.ob('R13.round', 'get_nodes:rounded', okg, f'get_nodes rounds every anchor it returns: {t!r:.120}', g.site)
    # terminal -> label goes through the equipotential map
    cls = pm.defs.get('SchematicDiagramParser')
    def method(name):
        mem = prog.find_member(pm, cls, name) if isinstance(cls, ast.ClassDef) else None
        return mem[:2] if mem else None
    def parser_ev():
        ev = Evaluator(prog); ev.opaque_fns.add((ELM, 'get_nodes')); ev.opaque_fns.add((ELM, 'round_node'))
        return ev
    gi = method('_get_node_index')
    okl = None
    if gi:
        ev = parser_ev()
        t = ev.call_fn(gi[1], gi[0], [A('self'), A('node')], {}, {'__parent__': None}, 1)
        sp = spec(ev, 'self.node_label_mapping[self.unique_node_mapping[node]]', {'self': A('self'), 'node': A('node')}, pm)
        okl = compare_terms(t, sp)
    rep.ob('R13.round', '_get_node_index', okl, 'label = node_label_mapping[unique_node_mapping[node]]', prog.site(pm, gi[1] if gi else cls))
    gl = method('ground_label')
    okgl = None
    if gl and gi:
        ev = parser_ev()
        t = ev.call_fn(gl[1], gl[0], [A('self')], {}, {'__parent__': None}, 1)
        sp1 = spec(ev, 'self._get_node_index(self.ground)', {'self': A('self')}, pm)
        sp2 = spec(ev, 'self.node_label_mapping[self.unique_node_mapping[self.ground]]', {'self': A('self')}, pm)
        c1, c2 = compare_terms(t, sp1), compare_terms(t, sp2)
        okgl = True if True in (c1, c2) else (False if False in (c1, c2) else None)
    rep.ob('R13.round', 'ground_label', okgl, 'ground label looked up through the same map', prog.site(pm, gl[1] if gl else cls))
    tm = prog.mod('SimpleCircuit.DiagramTranslator')
    tc = tm.defs.get('DiagramTranslator')
    okt = None
    mem = prog.find_member(tm, tc, '__call__') if isinstance(tc, ast.ClassDef) else None
    if mem:
        ev = Evaluator(prog); ev.opaque_fns.add((ELM, 'get_nodes'))
        selfv = Rec('DiagramTranslator', {'diagram_parser': A('parser'), 'translator_map': A('tmap')}, (tm, tc))
        t = ev.call_fn(mem[1], mem[0], [selfv, A('element')], {}, {'__parent__': None}, 1)
        sp = spec(ev, 'tuple(parser._get_node_index(p) for p in elm.get_nodes(element))', {'parser': A('parser'), 'element': A('element'), 'elm': ELMREF}, tm)
        vs = []
        for _, l in paths_of(t):
            at = l.as_atom() if isinstance(l, Poly) else None
            if isinstance(at, tuple) and at[0] == 'call' and len(at) == 4 and len(at[2]) == 2 and not at[3] and at[2][0] == tkey(A('element')):
                vs.append(at[2][1] == tkey(sp))
            else: vs.append(None)
        okt = None if not vs or any(v is None for v in vs) else all(vs)
    rep.ob('R13.round', 'translator:terminal-labels', okt, 'terminals of every symbol are labelled through _get_node_index(get_nodes(element))', prog.site(tm, tc) if tc is not None else '')
    # wires: exactly Line (not subclasses) carry connectivity
    le = method('line_elements')
    okw = None
    if le:
        ev = parser_ev()
        t = ev.call_fn(le[1], le[0], [A('self')], {}, {'__parent__': None}, 1)
        sp = spec(ev, '[e for e in self.all_elements if type(e) is elm.Line]', {'self': A('self'), 'elm': ELMREF}, pm)
        okw = compare_comps(t, sp) if isinstance(t, Comp) else None
    rep.ob('R13.round', 'wires', okw, 'wires are exactly the elements of type Line', prog.site(pm, le[1] if le else cls))
    # closure: fixpoint loop over wires adds both directions
    clm = method('_get_equal_electrical_potential_nodes')
    cl = clm[1] if clm else None
    okc = None
    if cl is not None:
        whiles = [n for n in ast.walk(cl) if isinstance(n, ast.While)]
        dirs = set()
        for n in ast.walk(cl):
            if isinstance(n, ast.If) and isinstance(n.test, ast.Compare) and len(n.test.ops) == 1 and isinstance(n.test.ops[0], ast.In) and isinstance(n.test.left, ast.Name):
                setname = ast.unparse(n.test.comparators[0])
                for c_ in ast.walk(ast.Module(body=n.body, type_ignores=[])):
                    if isinstance(c_, ast.Call) and isinstance(c_.func, ast.Attribute) and c_.func.attr == 'add' and len(c_.args) == 1 and isinstance(c_.args[0], ast.Name) and ast.unparse(c_.func.value) == setname:
                        dirs.add((n.test.left.id, c_.args[0].id, setname, any(any(y is n for y in ast.walk(w)) for w in whiles)))
        both = [(a_, b_) for a_, b_, s_, w_ in dirs if (b_, a_, s_, w_) in dirs and a_ != b_]
        if both: okc = all(w_ for a_, b_, s_, w_ in dirs if (a_, b_) in both)
        elif dirs: okc = False
    rep.ob('R13.round', 'closure', okc, 'equipotential closure iterates to a fixpoint and follows wires in both directions' if okc is not False else
           ('the closure follows wires in one direction only' if dirs and not both else 'the closure is not iterated to a fixpoint'), prog.site(pm, cl or cls))


def labels_rule(rep, prog):
    """automatic node numbers never collide with user labels: the counter is advanced WHILE its text is a label already in use"""
    from ..terms import compare_comps
    pm = prog.mod(PAR); cls = pm.defs.get('SchematicDiagramParser')
    mem = prog.find_member(pm, cls, 'node_label_mapping') if isinstance(cls, ast.ClassDef) else None
    fn = mem[1] if mem else None
    if fn is None:
        rep.ob('R13.labels', 'node_label_mapping', None, 'node_label_mapping not found'); return
    site = prog.site(pm, fn)
    def text_of(e):
        """name whose text form the expression is: str(n) / f'{n}' / format(n) / '%d' % n"""
        if isinstance(e, ast.Call) and isinstance(e.func, ast.Name) and e.func.id in ('str', 'format', 'repr') and len(e.args) == 1 and isinstance(e.args[0], ast.Name): return e.args[0].id
        if isinstance(e, ast.JoinedStr) and len(e.values) == 1 and isinstance(e.values[0], ast.FormattedValue) and isinstance(e.values[0].value, ast.Name) and e.values[0].format_spec is None: return e.values[0].value.id
        if isinstance(e, ast.BinOp) and isinstance(e.op, ast.Mod) and isinstance(e.left, ast.Constant) and e.left.value in ('%d', '%s', '%i') and isinstance(e.right, ast.Name): return e.right.id
        return None
    # the counter: a name whose text is used as a label value
    counters = {text_of(n) for n in ast.walk(fn)} - {None}
    def is_skip_test(t, cn):
        return any(isinstance(c_, ast.Compare) and isinstance(c_.ops[0], ast.In) and text_of(c_.left) == cn for c_ in ast.walk(t))
    def increments(body, cn):
        return any((isinstance(a, ast.AugAssign) and isinstance(a.op, ast.Add) and ast.unparse(a.target) == cn) or
                   (isinstance(a, ast.Assign) and ast.unparse(a.targets[0]) == cn and isinstance(a.value, ast.BinOp) and isinstance(a.value.op, ast.Add) and cn in (ast.unparse(a.value.left), ast.unparse(a.value.right)))
                   for b_ in body for a in ast.walk(b_))
    verdict, why = None, 'no collision-avoiding counter loop recognised'
    for cn in sorted(counters):
        whiles = [n for n in ast.walk(fn) if isinstance(n, ast.While) and is_skip_test(n.test, cn) and increments(n.body, cn)]
        ifs = [n for n in ast.walk(fn) if isinstance(n, ast.If) and is_skip_test(n.test, cn) and increments(n.body, cn)]
        if whiles: verdict, why = True, f'`{ast.unparse(whiles[0].test)}` is re-tested until the number is free'
        elif ifs and verdict is None: verdict, why = False, f'the number is advanced at most once (`if {ast.unparse(ifs[0].test)}`): two consecutive numeric user labels make an automatic label collide with a user label, shorting two distinct nodes'
    rep.ob('R13.labels', 'auto-numbers-skip-user-labels', verdict, why, site)
    # user labels come from the node symbols through the equipotential map: the table the numbering starts from
    ev = Evaluator(prog); ev.opaque_fns.add((ELM, 'get_nodes')); ev.opaque_fns.add((ELM, 'round_node'))
    t = ev.call_fn(fn, mem[0], [A('self')], {}, {'__parent__': None}, 1)
    init = None
    if isinstance(t, Opq) and t.k and t.k[0] == 'loop':
        init = next((x.k[1] for x in t.k[1:] if isinstance(x, Opq) and x.k and x.k[0] == 'init' and len(x.k) == 2), None)
    elif isinstance(t, Comp): init = t
    sp = spec(ev, '{self.unique_node_mapping[elm.get_nodes(e)[0]]: e.node_id for e in self.node_elements}', {'self': A('self'), 'elm': Ref('module', prog.mod(ELM), None, ELM)}, pm)
    oku = compare_comps(init, sp) if isinstance(init, Comp) else None
    rep.ob('R13.labels', 'user-labels', oku, f'label of a node symbol names the representative of the node it sits on: {init!r:.160}', site)


def _fn_of(m, node):
    best = None
    for n in ast.walk(m.tree):
        if isinstance(n, ast.FunctionDef) and n.lineno <= node.lineno <= (n.end_lineno or n.lineno): best = n.name
    return best or '<module>'
