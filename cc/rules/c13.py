"""C13 -- schematic drawings are read as the netlist they depict: symbol -> component table, reversal rule, degree conversion, rounding path."""
from __future__ import annotations
import ast
from ..api import A, spec, call_ref
from ..terms import Evaluator, Poly, Rec, Cond, Opq, Comp, Ref, tkey, paths_of, term_equal, has_opaque, compare_terms, as_poly
from ..report import AnalysisError

TRM = 'SimpleCircuit.CircuitComponentTranslators'
ELM = 'SimpleCircuit.Elements'
PAR = 'SimpleCircuit.DiagramParser'

# symbol class -> (component kind, {value key: expression over `element`}, source?)      (None = translates to nothing)
SYMBOLS = {
    'Resistor': ('resistor', {'R': "element.R"}, False),
    'Conductance': ('conductance', {'G': "element.G"}, False),
    'Impedance': ('impedance', {'R': "real(element.Z)", 'X': "imag(element.Z)"}, False),
    'Capacitor': ('capacitor', {'C': "element.C"}, False),
    'Inductance': ('inductance', {'L': "element.L"}, False),
    'Lamp': ('lamp', {'P': "element.P_ref", 'V_ref': "element.V_ref"}, False),
    'VoltageSource': ('dc_voltage_source', {'V': "real(element.V)"}, True),
    'CurrentSource': ('dc_current_source', {'I': "real(element.I)"}, True),
    'ComplexVoltageSource': ('complex_voltage_source', {'V_real': "real(element.V)", 'V_imag': "imag(element.V)"}, True),
    'ComplexCurrentSource': ('complex_current_source', {'I_real': "real(element.I)", 'I_imag': "imag(element.I)"}, True),
    'ACVoltageSource': ('ac_voltage_source', {'V': "element.V", 'w': "element.w", 'phi': 'PHI'}, True),
    'ACCurrentSource': ('ac_current_source', {'I': "element.I", 'w': "element.w", 'phi': 'PHI'}, True),
    'RectVoltageSource': ('periodic_voltage_source', {'V': "element.V", 'w': "element.w", 'phi': 'PHI', 'wavetype': "'rect'"}, True),
    'RectCurrentSource': ('periodic_current_source', {'I': "element.I", 'w': "element.w", 'phi': 'PHI', 'wavetype': "'rect'"}, True),
    'TriangleVoltageSource': ('periodic_voltage_source', {'V': "element.V", 'w': "element.w", 'phi': 'PHI', 'wavetype': "'tri'"}, True),
    'TriangleCurrentSource': ('periodic_current_source', {'I': "element.I", 'w': "element.w", 'phi': 'PHI', 'wavetype': "'tri'"}, True),
    'SawtoothVoltageSource': ('periodic_voltage_source', {'V': "element.V", 'w': "element.w", 'phi': 'PHI', 'wavetype': "'saw'"}, True),
    'SawtoothCurrentSource': ('periodic_current_source', {'I': "element.I", 'w': "element.w", 'phi': 'PHI', 'wavetype': "'saw'"}, True),
    'RealVoltageSource': ('dc_voltage_source', {'V': "real(element.V)", 'R': "element.R"}, 'lossy'),
    'RealCurrentSource': ('dc_current_source', {'I': "real(element.I)", 'G': "element.G"}, 'lossy'),
    'LabeledLine': ('short_circuit', {}, 'nodes-only'),
    'Ground': ('ground', {}, False),
}
NOTHING = {'Line', 'Node', 'LabelNode', 'VoltageLabel', 'CurrentLabel', 'PowerLabel', 'Element'}
UNTRANSLATABLE = {'Admittance': 'raises UnknownTranslator (outside C13\'s symbol set)', 'Switch': 'handled by the switch rule', 'Schematic': 'the drawing itself'}
PHI = "element.phi*pi/180 if element.deg else element.phi"


def run(rep, prog, tier):
    from .hidden import no_hidden_state
    rep.rule('R13.state', 'no hidden state in the anchored modules: no function writes a module-level object, no caching decorator / cached property')
    no_hidden_state(rep, 'R13.state', prog, ['SimpleCircuit/DiagramParser.py', 'SimpleCircuit/DiagramTranslator.py', 'SimpleCircuit/CircuitComponentTranslators.py', 'SimpleCircuit/Elements.py'])
    rep.rule('R13.table', 'every symbol class is a key of circuit_translator_map (or a listed exception); each translator builds the matching component kind with the symbol\'s own quantities, id = element.name')
    rep.rule('R13.reverse', 'ideal-source translators: nodes = (n0, n1) unless is_reverse then (n1, n0), value = X unless is_reverse then -X for one and the same X; source classes store X unless reverse then -X')
    rep.rule('R13.deg', 'phi*pi/180 if element.deg else phi on the sinusoidal / periodic translators')
    rep.rule('R13.labels', 'automatic node numbers skip every label already in use (loop until free); user labels name the representative of their node')
    rep.rule('R13.round', 'every terminal coordinate read by the parser is rounded by the same function (same digits for x and y); every terminal -> label lookup goes through the equipotential map; plain wires translate to nothing; switch open -> R = inf, closed -> 1e-12')
    rep.assume('NOT DECIDED: wire-closure on actual coordinates, invariance under rotation / translation / rescaling / splitting / insertion order (schemdraw geometry at run time)')
    m = prog.mod(TRM); em = prog.mod(ELM)
    table = {k: (kn, vn) for k, kn, vn in prog.table(TRM, 'circuit_translator_map')}
    # ---- exhaustiveness: symbol classes defined in Elements.py
    classes = [n for n, c in em.defs.items() if isinstance(c, ast.ClassDef)]
    symbol_like = [n for n in classes if n not in ('SwitchState', 'SimpleCircuitElement', 'Schematic')]
    for cname in symbol_like:
        if cname in UNTRANSLATABLE and cname not in table:
            rep.info(f'{cname}: {UNTRANSLATABLE[cname]}'); continue
        rep.ob('R13.table', f'{cname}:in-map', cname in table, 'has a translator' if cname in table else f'symbol class {cname} has no entry in circuit_translator_map: drawing it raises UnknownTranslator', prog.site(em, em.defs[cname]))
    wt = {}
    pf = prog.mod('SignalProcessing.periodic_functions')
    for cn, key in (('RectFunction', 'rect'), ('TriFunction', 'tri'), ('SawFunction', 'saw')):
        wt[key] = cn
    for cname, (kn, vn) in sorted(table.items()):
        r = prog.resolve_expr(m, vn)
        site = prog.site(m, vn)
        if r is None or r[0] != 'func':
            rep.ob('R13.table', f'{cname}:translator', None, 'translator not resolved', site); continue
        fn = r[2]
        ev = Evaluator(prog)
        ev.opaque_fns |= set()
        t = call_ref(ev, r[1], fn, [A('element'), A('nodes')])
        if cname in NOTHING:
            rep.ob('R13.table', f'{cname}:nothing', t is None, 'translates to no component' if t is None else f'yields {t!r:.80}', site); continue
        if cname == 'Switch':
            switch_rule(rep, prog, ev, t, site); continue
        if cname not in SYMBOLS:
            rep.ob('R13.table', f'{cname}:spec', None, 'no specification for this symbol class', site); continue
        kind, values, src = SYMBOLS[cname]
        leaves = [l for _, l in paths_of(t)]
        comp = t
        if not all(isinstance(l, Rec) and l.cls == 'Component' for l in leaves):
            rep.ob('R13.table', f'{cname}:component', None, f'does not return Component(...): {t!r:.120}', site); continue
        lf = leaves[0]
        okk = all(l.f.get('type') == kind for l in leaves)
        rep.ob('R13.table', f'{cname}:kind', okk, f"builds kind '{lf.f.get('type')}'" + ('' if okk else f", expected '{kind}'"), site)
        okid = all(term_equal(l.f.get('id'), ev.getattr(A('element'), 'name', m, 0)) for l in leaves)
        rep.ob('R13.table', f'{cname}:id', okid, f"id = {lf.f.get('id')!r}", site)
        n0, n1 = ev.getitem(A('nodes'), Poly.const(0)), ev.getitem(A('nodes'), Poly.const(1))
        rev = ev.getattr(A('element'), 'is_reverse', m, 0)
        # nodes
        nodes = t.f.get('nodes') if isinstance(t, Rec) else None
        if kind == 'ground':
            okn = isinstance(nodes, tuple) and len(nodes) == 1 and term_equal(nodes[0], n0)
            rep.ob('R13.table', f'{cname}:nodes', okn, f'nodes = {nodes!r}', site)
        elif src:
            spn = spec(ev, "(nodes[0], nodes[1]) if not element.is_reverse else (nodes[1], nodes[0])", {'element': A('element'), 'nodes': A('nodes')}, m)
            rep.ob('R13.reverse', f'{cname}:nodes', compare_terms(nodes, spn), f'nodes = {nodes!r:.160}', site, lhs=nodes, rhs=spn)
        else:
            okn = isinstance(nodes, tuple) and len(nodes) == 2 and term_equal(nodes[0], n0) and term_equal(nodes[1], n1)
            rep.ob('R13.table', f'{cname}:nodes', okn if nodes is not None and not has_opaque(nodes) else None, f'nodes = {nodes!r:.120}', site)
        # values
        val = t.f.get('value') if isinstance(t, Rec) else None
        if not isinstance(val, dict):
            rep.ob('R13.table', f'{cname}:values', None, f'value = {val!r:.100}', site); continue
        for key, src_expr in values.items():
            got = val.get(key)
            if key == 'wavetype':
                want = src_expr.strip("'")
                rep.ob('R13.table', f'{cname}:value:{key}', got == want, f"wavetype = {got!r}", site); continue
            if src_expr == 'PHI':
                sp = spec(ev, PHI, {'element': A('element')}, m)
                rep.ob('R13.deg', cname, compare_terms(got, sp), f'phi = {got!r:.160}', site, lhs=got, rhs=sp); continue
            base = spec(ev, src_expr, {'element': A('element')}, m)
            is_signed = src is True and key in ('V', 'I', 'V_real', 'V_imag', 'I_real', 'I_imag')
            if is_signed:
                sp = ev.fresh().mkcond(rev, ev.fresh().lift1(lambda x: as_poly(x).neg(), base), base)
                rep.ob('R13.reverse', f'{cname}:value:{key}', compare_terms(got, sp), f'{key} = {got!r:.160}', site, lhs=got, rhs=sp)
            elif src == 'lossy' and key in ('V', 'I'):
                sp = ev.fresh().mkcond(rev, ev.fresh().lift1(lambda x: as_poly(x).neg(), base), base)
                c = compare_terms(got, sp)
                rep.ob('R13.table', f'{cname}:value:{key}', c, f'{key} = {got!r:.160}', site)
            else:
                rep.ob('R13.table', f'{cname}:value:{key}', compare_terms(got, base), f'{key} = {got!r:.120}', site, lhs=got, rhs=base)
    classes_reverse(rep, prog)
    rounding(rep, prog)
    labels_rule(rep, prog)


def switch_rule(rep, prog, ev, t, site):
    leaves = paths_of(t)
    got = {}
    for pc, l in leaves:
        if isinstance(l, Rec) and l.cls == 'Component' and l.f.get('type') == 'resistor' and isinstance(l.f.get('value'), dict):
            R = l.f['value'].get('R')
            gk = ' '.join(k for k, _ in pc)
            pol = [v for _, v in pc]
            got[(('OPEN' in gk), tuple(pol))] = R
    vals = [repr(v) for v in got.values()]
    ok = any('inf' in v for v in vals) and any('1/1000000000000' in v for v in vals) and len(got) == 2
    open_first = None
    for (is_open_guard, pol), R in got.items():
        if is_open_guard and pol and pol[0] is True: open_first = 'inf' in repr(R)
    rep.ob('R13.round', 'switch', bool(ok and open_first), f'switch -> resistor with R in {vals} (open -> inf, closed -> 1e-12)', site)


def classes_reverse(rep, prog):
    em = prog.mod(ELM)
    n = 0
    for cname, c in sorted(em.defs.items()):
        if not isinstance(c, ast.ClassDef): continue
        init = next((x for x in c.body if isinstance(x, ast.FunctionDef) and x.name == '__init__'), None)
        if init is None: continue
        params = [a.arg for a in init.args.args + init.args.kwonlyargs]
        q = 'V' if 'V' in params else ('I' if 'I' in params else None)
        if q is None or 'reverse' not in params: continue
        # the stored attribute read back by property q
        stores = [st for st in ast.walk(init) if isinstance(st, ast.Assign) and any(ast.unparse(t) == f'self._{q}' for t in st.targets)]
        if not stores: continue
        n += 1
        ev = Evaluator(prog)
        env = {'__parent__': None, q: A('X'), 'reverse': A('reverse'), 'self': A('self')}
        v = ev.ev(stores[0].value, env, em, 1)
        sp = spec(ev, "X if not reverse else -X", {'X': A('X'), 'reverse': A('reverse')}, em)
        rep.ob('R13.reverse', f'class:{cname}', compare_terms(v, sp), f'_{q} = {v!r}', prog.site(em, stores[0]), lhs=v, rhs=sp)
        # property returns the stored attribute
        prop = next((x for x in c.body if isinstance(x, ast.FunctionDef) and x.name == q), None)
        from ..prog import returned_expr
        rv = returned_expr(prop) if prop is not None else None
        okp = rv is not None and ast.unparse(rv) == f'self._{q}'
        rep.ob('R13.reverse', f'class:{cname}:property', okp, f'{q} returns self._{q}', prog.site(em, prop or c))
    if n < 10: rep.error(f'only {n} source symbol classes with a reversal rule found')


def rounding(rep, prog):
    pm = prog.mod(PAR); em = prog.mod(ELM)
    # reads of absanchors in the parser / translator modules must be wrapped by round_node or go through get_nodes
    bad = []; good = 0
    for m in (pm, prog.mod('SimpleCircuit.DiagramTranslator')):
        parents = {}
        for n in ast.walk(m.tree):
            for ch in ast.iter_child_nodes(n): parents[id(ch)] = n
        for n in ast.walk(m.tree):
            if isinstance(n, ast.Attribute) and n.attr == 'absanchors':
                p = parents.get(id(n)); pp = parents.get(id(p)) if p is not None else None
                wrapped = isinstance(pp, ast.Call) and ast.unparse(pp.func).split('.')[-1] == 'round_node'
                if wrapped: good += 1
                else: bad.append((m, n))
    for m, n in bad:
        rep.ob('R13.round', f'{m.short}:absanchors@{_fn_of(m, n)}', False, 'terminal coordinate read without rounding: coincident terminals may be seen as distinct nodes', prog.site(m, n))
    rep.ob('R13.round', 'parser:rounded-reads', True if good >= 4 and not bad else (None if good < 4 else False), f'{good} coordinate reads, all through round_node')
    # round_node: same ndigits for x and y
    f = prog.func(ELM, 'round_node')
    ev = Evaluator(prog)
    ev.opaque_classes |= set()
    calls = [n for n in ast.walk(f.node) if isinstance(n, ast.Call) and ast.unparse(n.func) == 'round']
    inner = [n for n in ast.walk(f.node) if isinstance(n, ast.FunctionDef) and n is not f.node]
    ret = [r for r in ast.walk(f.node) if isinstance(r, ast.Return)]
    src = ast.unparse(f.node)
    both = 'node.x' in src and 'node.y' in src
    one_rounder = len(calls) == 1 and len(inner) == 1 or (len(calls) == 2 and ast.dump(calls[0].keywords[0].value if calls[0].keywords else calls[0].args[1]) == ast.dump(calls[1].keywords[0].value if calls[1].keywords else calls[1].args[1]))
    rep.ob('R13.round', 'round_node:same-digits', bool(both and one_rounder), 'x and y are rounded by one and the same rule', f.site)
    g = prog.func(ELM, 'get_nodes')
    okg = 'round_node(element.absanchors[' in ast.unparse(g.node)
    rep.ob('R13.round', 'get_nodes:rounded', okg, 'get_nodes rounds every anchor it returns', g.site)
    # terminal -> label goes through the equipotential map
    cls = pm.defs.get('SchematicDiagramParser')
    gi = next((x for x in cls.body if isinstance(x, ast.FunctionDef) and x.name == '_get_node_index'), None) if isinstance(cls, ast.ClassDef) else None
    from ..prog import returned_expr
    rgi = returned_expr(gi) if gi is not None else None
    argn = gi.args.args[1].arg if gi is not None and len(gi.args.args) > 1 else 'node'
    okl = rgi is not None and ast.unparse(rgi).replace(' ', '') == f'self.node_label_mapping[self.unique_node_mapping[{argn}]]'
    rep.ob('R13.round', '_get_node_index', okl, 'label = node_label_mapping[unique_node_mapping[node]]', prog.site(pm, gi or cls))
    gl = next((x for x in cls.body if isinstance(x, ast.FunctionDef) and x.name == 'ground_label'), None)
    rgl = returned_expr(gl) if gl is not None else None
    okgl = rgl is not None and ast.unparse(rgl).replace(' ', '') == 'self._get_node_index(self.ground)'
    rep.ob('R13.round', 'ground_label', okgl, 'ground label looked up through the same map', prog.site(pm, gl or cls))
    tm = prog.mod('SimpleCircuit.DiagramTranslator')
    tc = tm.defs.get('DiagramTranslator')
    src = ast.unparse(tc) if tc is not None else ''
    okt = 'map(self.diagram_parser._get_node_index, elm.get_nodes(element))' in src
    rep.ob('R13.round', 'translator:terminal-labels', okt, 'terminals of every symbol are labelled through _get_node_index(get_nodes(element))', prog.site(tm, tc) if tc is not None else '')
    # wires: exactly Line (not subclasses) carry connectivity
    le = next((x for x in cls.body if isinstance(x, ast.FunctionDef) and x.name == 'line_elements'), None)
    okw = False
    if le is not None:
        for cpn in ast.walk(le):
            if isinstance(cpn, ast.comprehension) and isinstance(cpn.target, ast.Name):
                for f_ in cpn.ifs:
                    if (isinstance(f_, ast.Compare) and isinstance(f_.ops[0], ast.Is) and isinstance(f_.left, ast.Call) and ast.unparse(f_.left.func) == 'type'
                            and ast.unparse(f_.left.args[0]) == cpn.target.id and ast.unparse(f_.comparators[0]).split('.')[-1] == 'Line'): okw = True
    rep.ob('R13.round', 'wires', okw, 'wires are exactly the elements of type Line', prog.site(pm, le or cls))
    # closure: fixpoint loop over wires adds both directions
    cl = next((x for x in cls.body if isinstance(x, ast.FunctionDef) and x.name == '_get_equal_electrical_potential_nodes'), None)
    okc = False
    if cl is not None:
        has_while = any(isinstance(n, ast.While) for n in ast.walk(cl))
        pair = None
        for n in ast.walk(cl):
            if isinstance(n, ast.Assign) and isinstance(n.targets[0], ast.Tuple) and len(n.targets[0].elts) == 2 and isinstance(n.value, ast.Call) and ast.unparse(n.value.func).split('.')[-1] == 'get_nodes':
                pair = tuple(e.id for e in n.targets[0].elts if isinstance(e, ast.Name))
        dirs = set()
        for n in ast.walk(cl):
            if isinstance(n, ast.If) and isinstance(n.test, ast.Compare) and isinstance(n.test.ops[0], ast.In) and isinstance(n.test.left, ast.Name):
                adds = [ast.unparse(c_.args[0]) for c_ in ast.walk(ast.Module(body=n.body, type_ignores=[])) if isinstance(c_, ast.Call) and isinstance(c_.func, ast.Attribute) and c_.func.attr == 'add' and c_.args]
                for a_ in adds: dirs.add((n.test.left.id, a_))
        okc = bool(has_while and pair and len(pair) == 2 and (pair[0], pair[1]) in dirs and (pair[1], pair[0]) in dirs)
    rep.ob('R13.round', 'closure', okc, 'equipotential closure iterates to a fixpoint and follows wires in both directions', prog.site(pm, cl or cls))


def labels_rule(rep, prog):
    """automatic node numbers never collide with user labels: the counter is advanced WHILE its text is a label already in use"""
    pm = prog.mod(PAR); cls = pm.defs.get('SchematicDiagramParser')
    fn = next((x for x in cls.body if isinstance(x, ast.FunctionDef) and x.name == 'node_label_mapping'), None) if isinstance(cls, ast.ClassDef) else None
    if fn is None:
        rep.ob('R13.labels', 'node_label_mapping', None, 'node_label_mapping not found'); return
    site = prog.site(pm, fn)
    # the counter: a name that is str()-converted into a label value
    counters = set()
    for n in ast.walk(fn):
        if isinstance(n, ast.Call) and ast.unparse(n.func) == 'str' and n.args and isinstance(n.args[0], ast.Name): counters.add(n.args[0].id)
    def is_skip_test(t, cn):
        return any(isinstance(c_, ast.Compare) and isinstance(c_.ops[0], ast.In) and f'str({cn})' in ast.unparse(c_.left) for c_ in ast.walk(t))
    def increments(body, cn):
        return any(isinstance(a, ast.AugAssign) and isinstance(a.op, ast.Add) and ast.unparse(a.target) == cn for b_ in body for a in ast.walk(b_))
    verdict, why = None, 'no collision-avoiding counter loop recognised'
    for cn in counters:
        whiles = [n for n in ast.walk(fn) if isinstance(n, ast.While) and is_skip_test(n.test, cn) and increments(n.body, cn)]
        ifs = [n for n in ast.walk(fn) if isinstance(n, ast.If) and is_skip_test(n.test, cn) and increments(n.body, cn)]
        if whiles: verdict, why = True, f'`{ast.unparse(whiles[0].test)}` is re-tested until the number is free'
        elif ifs: verdict, why = False, f'the number is advanced at most once (`if {ast.unparse(ifs[0].test)}`): two consecutive numeric user labels make an automatic label collide with a user label, shorting two distinct nodes'
    rep.ob('R13.labels', 'auto-numbers-skip-user-labels', verdict, why, site)
    # user labels come from the node symbols through the equipotential map
    src = ast.unparse(fn)
    oku = 'self.unique_node_mapping[' in src and '.node_id' in src and 'self.node_elements' in src
    rep.ob('R13.labels', 'user-labels', oku, 'label of a node symbol names the representative of the node it sits on', site)


def _fn_of(m, node):
    best = None
    for n in ast.walk(m.tree):
        if isinstance(n, ast.FunctionDef) and n.lineno <= node.lineno <= (n.end_lineno or n.lineno): best = n.name
    return best or '<module>'
