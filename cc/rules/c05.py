"""C05 -- power formulas and their argument wiring."""
from __future__ import annotations
import ast
from ..api import A, spec
from ..terms import _is_callable_term, Evaluator, Poly, Rec, Cond, Opq, Comp, Closure, tkey, term_equal, has_opaque, compare_terms
from .solutions import class_of, new_ev, init_self, method_term, OPAQUE_CIRCUIT, CS


def run(rep, prog, tier):
    from .hidden import no_hidden_state
    rep.rule('R05.state', 'no hidden state in the anchored modules: no function writes a module-level object, no caching decorator / cached property')
    no_hidden_state(rep, 'R05.state', prog, ['Network/NodalAnalysis/solution.py', 'Network/NodalAnalysis/bias_point_analysis.py', 'Circuit/solution.py'])
    rep.rule('R05.formula', 'network power = V*conj(I); DC = V*I; complex = 1/2*V*conj(I) for peak phasors else V*conj(I); time domain = v(t)*i(t); transient = product of the two series; frequency domain delegates per frequency; both factors are queried with the same identifier')
    rep.assume('get_voltage / get_current of the same object return the quantities checked under C01 / C02')
    envs = {'self': A('self'), 'id': A('id')}
    # ---- the two factors themselves: the read-back of branch voltage and current from the solution vector addresses the unknown of the
    # queried branch for every naming / listing order (index-space typing of the bias-point accessors, shared with C01)
    from . import spacerules as SR
    rep.rule('R05.space', 'the voltage and the current multiplied in the power formulas are read from the solution vector at the position of the queried branch (index-space typing of the accessors)')
    interps = SR.analyse(prog)
    n = SR.emit(rep, 'R05.space', interps, ['bias'])
    if n < 4: rep.error(f'only {n} index-space obligations on the read-back accessors')
    # ---- network solution
    m, cls = class_of(prog, 'Network.NodalAnalysis.bias_point_analysis', 'NodalAnalysisBiasPointSolution')     # concrete class: overrides are seen
    ev = new_ev(prog)
    t, site = method_term(prog, ev, m, cls, 'get_power', [A('id')])
    sp = spec(ev, "self.get_voltage(id)*conj(self.get_current(id))", envs, m)
    rep.ob('R05.formula', 'network', compare_terms(t, sp), f'= {t!r:.200}', site, lhs=t, rhs=sp)
    # ---- DC
    m, cls = class_of(prog, CS, 'DCSolution')
    ev = new_ev(prog, real_atoms=set())
    t, site = method_term(prog, ev, m, cls, 'get_power', [A('id')])
    sp = spec(ev, "self.get_voltage(id)*self.get_current(id)", envs, m)
    rep.ob('R05.formula', 'dc', compare_terms(t, sp), f'= {t!r:.200}', site, lhs=t, rhs=sp)
    # ---- complex
    m, cls = class_of(prog, CS, 'ComplexSolution')
    ev = new_ev(prog)
    t, site = method_term(prog, ev, m, cls, 'get_power', [A('id')])
    sp = spec(ev, "self.get_voltage(id)*conj(self.get_current(id))/2 if self.peak_values else self.get_voltage(id)*conj(self.get_current(id))", envs, m)
    rep.ob('R05.formula', 'complex', compare_terms(t, sp), f'= {t!r:.260}', site, lhs=t, rhs=sp)
    # ---- time domain: returned function applied to t
    m, cls = class_of(prog, CS, 'TimeDomainSolution')
    ev = new_ev(prog, real_atoms={'t'})
    t, site = method_term(prog, ev, m, cls, 'get_power', [A('id')])
    if _is_callable_term(t):
        val = ev.apply(t, [A('t')], {}, m, 1)
        sp = spec(ev, "self.get_voltage(id)(t)*self.get_current(id)(t)", dict(envs, t=A('t')), m)
        verdict = compare_terms(val, sp)
        why = f'p(t) = {val!r:.200}'
        if verdict is not True:
            # p(t) = v(t) i(t) is a PRODUCT of the two sums over the frequency components.  One sum whose summand multiplies the voltage AND the
            # current of the same component drops every cross term between different components (DC x AC, two tones): not the same function
            def sums(k, out):
                if isinstance(k, tuple):
                    if (len(k) >= 2 and k[0] == 'Σ') or (len(k) >= 3 and k[:2] == ('opq', 'Σ')): out.append(k)
                    for x in k: sums(x, out)
                return out
            mixed = [x for x in sums(tkey(val), []) if "'get_voltage'" in repr(x) and "'get_current'" in repr(x)
                     and not any(y is not x and "'get_voltage'" in repr(y) and "'get_current'" in repr(y) for y in sums(x[2:] if x[:2] == ('opq', 'Σ') else x[1:], []))]
            if mixed:
                verdict = False
                why = 'p(t) is ONE sum over the frequency components of (voltage of the component) x (current of the component): the cross terms between different components are missing, p(t) != v(t) i(t) -- ' + why
        rep.ob('R05.formula', 'time-domain', verdict, why, site, lhs=val, rhs=sp)
    else:
        rep.ob('R05.formula', 'time-domain', None, f'get_power does not return a function: {t!r:.100}', site)
    # ---- transient: (tout, v_series * i_series)
    m, cls = class_of(prog, CS, 'TransientSolution')
    ev = new_ev(prog)
    t, site = method_term(prog, ev, m, cls, 'get_power', [A('id')])
    ok = None
    if isinstance(t, tuple) and len(t) == 2:
        sp = spec(ev, "self.get_voltage(id)[1]*self.get_current(id)[1]", envs, m)
        ok = compare_terms(t[1], sp)
        t0 = term_equal(t[0], ev.getattr(A('self'), '_tout', m, 0)) or term_equal(t[0], ev.getattr(A('self'), 't', m, 0))
        if ok is True and not t0: ok = None if has_opaque(t[0]) else False
    rep.ob('R05.formula', 'transient', ok, f'= {t!r:.200}', site)
    # ---- frequency domain: one get_power per stored single-frequency solution
    m, cls = class_of(prog, CS, 'FrequencyDomainSolution')
    ev = new_ev(prog)
    t, site = method_term(prog, ev, m, cls, 'get_power', [A('id')])
    ok = None
    if isinstance(t, tuple) and len(t) == 2:
        sols = ev.getattr(A('self'), '_solutions', m, 0)
        el = ev.elem_of(sols, 0)
        sp = Comp(ev.call_method(el, 'get_power', [A('id')], {}, m, 0), [(sols, [])], 'list')
        ok = True if term_equal(t[1], sp) else (None if has_opaque(t[1]) else False)
        if ok is not True:
            # the per-frequency quantity may be passed as the unbound method ComplexSolution.get_power, which is then unfolded on the element
            mc, cc_ = class_of(prog, CS, 'ComplexSolution')
            fn_ = ev.getattr(ev.ref_of(('class', mc, cc_)), 'get_power', m, 0)
            sp2 = Comp(ev.apply(fn_, [el, A('id')], {}, m, 1), [(sols, [])], 'list')
            if term_equal(t[1], sp2): ok = True
    rep.ob('R05.formula', 'frequency-domain', ok, f'= {t!r:.200}', site)
