"""C08 -- Fourier series of the built-in periodic waveforms: (time function, coefficient) pairs against a derived reference table."""
from __future__ import annotations
import ast
from fractions import Fraction as F
from ..api import A, spec
from ..terms import _is_callable_term, Evaluator, Poly, Rec, Cond, Opq, Comp, Closure, Ref, tkey, paths_of, term_equal, has_opaque, compare_terms, as_poly
from ..report import AnalysisError

PF = 'SignalProcessing.periodic_functions'

# Reference table, derived by hand integration (DESIGN.md C08):  f(t) = sum_{n>=0} A_n cos(n w0 t + phi_n),  tau = t + phi T / 2 pi
#   wavetype -> (time function, {case: phasor A_n e^{j phi_n}})   cases: n0 (n=0), n1 (n=1), even (n=2m+2), odd (n=2m+3); 'odd*' = odd incl. n=1
TIME = {
    'const': "A",
    'cos': "A*cos(2*pi/T*t + phi) + o",
    'sin': "A*sin(2*pi/T*t + phi) + o",
    'rect': "(A + o) if mod(t + phi/2/pi*T, T) < T/2 else (-A + o)",
    'tri': "(A*(1 - 4/T*mod(t + phi/2/pi*T, T)) + o) if mod(t + phi/2/pi*T, T) < T/2 else (A*(-3 + 4/T*mod(t + phi/2/pi*T, T)) + o)",
    'saw': "A*(2/T*mod(t + phi/2/pi*T, T) - 1) + o",
}
PHASOR = {
    'const': {'n0': "A", 'n1': "0", 'even': "0", 'odd': "0"},
    'cos': {'n0': "o", 'n1': "A*exp(1j*phi)", 'even': "0", 'odd': "0"},
    'sin': {'n0': "o", 'n1': "A*exp(1j*(phi - pi/2))", 'even': "0", 'odd': "0"},
    'rect': {'n0': "o", 'n1': "4*A/(n*pi)*exp(1j*(n*phi - pi/2))", 'even': "0", 'odd': "4*A/(n*pi)*exp(1j*(n*phi - pi/2))"},
    'tri': {'n0': "o", 'n1': "8*A/(n*n*pi*pi)*exp(1j*n*phi)", 'even': "0", 'odd': "8*A/(n*n*pi*pi)*exp(1j*n*phi)"},
    'saw': {'n0': "o", 'n1': "-2*A/(n*pi)*exp(1j*(n*phi - pi/2))", 'even': "-2*A/(n*pi)*exp(1j*(n*phi - pi/2))", 'odd': "-2*A/(n*pi)*exp(1j*(n*phi - pi/2))"},
}
CASES = {'n0': Poly.const(0), 'n1': Poly.const(1), 'even': Poly.atom('n'), 'odd': Poly.atom('n')}      # even: n >= 2, n mod 2 = 0 ; odd: n >= 3, n mod 2 = 1


def new_ev(prog, case=None):
    facts = [(A('T'), '>0')]
    if case in ('even', 'odd'):
        facts += [(A('n'), '>0'), (A('n') - Poly.const(1), '>0')]
    ev = Evaluator(prog, real_atoms={'t', 'T', 'phi', 'A', 'o', 'n'}, facts=facts)
    ev.integer |= {'n'}
    if case in ('even', 'odd'):
        ev.mod_facts[(A('n').key(), F(2))] = F(0 if case == 'even' else 1)
    return ev


def wave_table(prog):
    m = prog.mod(PF)
    out = []
    for key, kn, vn in prog.table(PF, 'fourier_series_mapping'):
        wave = prog.resolve_expr(m, kn); harm = prog.resolve_expr(m, vn)
        out.append((key, wave, harm))
    return m, out


def wavetype_of(prog, ev, mod, cls):
    for name, dv, fm, _ in prog.dataclass_fields(mod, cls):
        if name == 'wavetype' and dv is not None:
            v = ev.ev(dv, {'__parent__': None}, fm, 0)
            return v if isinstance(v, str) else None
    return None


def run(rep, prog, tier):
    from .hidden import no_hidden_state
    rep.rule('R08.state', 'no hidden state in the anchored modules: no function writes a module-level object, no caching decorator / cached property')
    no_hidden_state(rep, 'R08.state', prog, ['SignalProcessing/periodic_functions.py'])
    rep.rule('R08.pair', 'for each entry of fourier_series_mapping: the normal form of the wave class\'s time function AND the phasor A_n e^{j phi_n} formed from the harmonic class\'s amplitude/phase methods (cases n=0, n=1, even n, odd n) equal one row of the reference table derived by hand integration')
    rep.rule('R08.abc', 'a = A cos phi, b = -A sin phi, c(n>=0) = A/2 e^{j phi}, c(n<0) = A(-n)/2 e^{-j phi(-n)}; amplitude(-n) = amplitude(n), phase(-n) = -phase(n)')
    rep.rule('R08.lookup', 'every wave class is a key of the mapping and maps to a distinct harmonic class overriding both abstract methods; wavetype names pairwise distinct; lookup by equality, miss raises; fourier_series passes amplitude->amplitude0, phase->phase0, offset->offset0')
    rep.assume('the reference table of DESIGN.md C08 (hand-derived Fourier coefficients) is correct')
    rep.assume('NOT DECIDED: mean-square convergence / Parseval numerically; non-integer or huge n')
    m, table = wave_table(prog)
    if len(table) < 6:
        rep.error(f'fourier_series_mapping has {len(table)} entries; 6 confirmed')
    seen_harm, seen_wt = {}, {}
    for key, wave, harm in table:
        if not wave or wave[0] != 'class' or not harm or harm[0] != 'class':
            rep.ob('R08.lookup', f'{key}:entry', None, 'entry does not resolve to (wave class, harmonic class)'); continue
        wm, wc = wave[1], wave[2]; hm, hc = harm[1], harm[2]
        ev = new_ev(prog)
        wt = wavetype_of(prog, ev, wm, wc)
        site = prog.site(wm, wc)
        # ---- lookup facets
        rep.ob('R08.lookup', f'{wc.name}:distinct-harmonics', hc.name not in seen_harm, f'-> {hc.name}' + (f' (also used by {seen_harm.get(hc.name)})' if hc.name in seen_harm else ''), site)
        seen_harm[hc.name] = wc.name
        rep.ob('R08.lookup', f'{wc.name}:wavetype', wt is not None and wt not in seen_wt, f"wavetype '{wt}'" + (f' also used by {seen_wt.get(wt)}' if wt in seen_wt else ''), site)
        if wt: seen_wt[wt] = wc.name
        # the harmonic class has its own (non-abstract) amplitude and phase coefficients -- defined in its body, inherited from an intermediate
        # base or bound by assignment, as long as the member that is found is not the abstract declaration
        def concrete(name):
            mem_ = prog.find_member(hm, hc, name)
            if not mem_: return False
            if isinstance(mem_[1], ast.FunctionDef): return not any('abstractmethod' in d_ for d_ in prog.decorators(mem_[1]))
            return isinstance(mem_[1], (ast.Assign, ast.AnnAssign))
        okc = concrete('_amplitude_coefficient') and concrete('_phase_coefficient')
        rep.ob('R08.lookup', f'{hc.name}:overrides', okc, 'amplitude and phase coefficients are concrete members of the class', prog.site(hm, hc))
        if wt not in TIME:
            rep.ob('R08.pair', f'{wc.name}:row', None, f"no reference row for wavetype '{wt}'", site); continue
        # ---- time function
        selfw = Rec(wc.name, {'period': A('T'), 'amplitude': A('A'), 'phase': A('phi'), 'offset': A('o'), 'wavetype': wt}, (wm, wc))
        tf = ev.getattr(selfw, 'time_function', wm, 1)
        val = ev.apply(tf, [A('t')], {}, wm, 1) if _is_callable_term(tf) else None
        env = {k: A(k) for k in ('t', 'T', 'phi', 'A', 'o', 'n')}
        if val is None:
            rep.ob('R08.pair', f'{wt}:time', None, f'time_function is not a function of t: {tf!r:.100}', site)
        else:
            sp = spec(ev, TIME[wt], env, wm)
            rep.ob('R08.pair', f'{wt}:time', compare_terms(val, sp), f'f(t) = {val!r:.260}', site, lhs=val, rhs=sp)
        # ---- coefficients, as phasor, per case
        selfh = Rec(hc.name, {'amplitude0': A('A'), 'phase0': A('phi'), 'offset0': A('o')}, (hm, hc))
        for case, nval in CASES.items():
            evc = new_ev(prog, case)
            amp = evc.call_method(selfh, '_amplitude_coefficient', [nval], {}, hm, 1)
            ph = evc.call_method(selfh, '_phase_coefficient', [nval], {}, hm, 1)
            phasor = evc.binop(ast.Mult(), amp, evc.lift1(lambda x: evc.npcall('exp', [as_poly(x) * Poly.const(0, 1)], {}), ph))
            envc = dict(env); envc['n'] = nval
            sp = spec(evc, PHASOR[wt][case], envc, hm)
            c = compare_terms(phasor, sp)
            rep.ob('R08.pair', f'{wt}:{case}', c, f'A_n e^(j phi_n) at n={nval!r} = {phasor!r:.200}' + ('' if c is True else f'   reference {sp!r:.200}'), prog.site(hm, hc), lhs=phasor, rhs=sp)
    abc(rep, prog)
    lookup(rep, prog, table)


def abc(rep, prog):
    m = prog.mod(PF); cls = m.defs.get('AbstractHarmonicCoefficients')
    if not isinstance(cls, ast.ClassDef):
        rep.ob('R08.abc', 'class', None, 'AbstractHarmonicCoefficients not found'); return
    env = {'self': A('self'), 'n': A('n')}
    def meth(name, facts=(), inline=()):
        ev = Evaluator(prog, real_atoms={'n'}, facts=list(facts))
        ev.self_class = (m, cls)          # private helpers of the class are inlined; amplitude() / phase() stay symbolic
        ev.inline_self_methods = set(inline)
        ev.real_methods = {'_amplitude_coefficient', '_phase_coefficient', 'amplitude', 'phase'}
        mem = prog.find_member(m, cls, name)
        return ev, ev.call_fn(mem[1], mem[0], [A('self'), A('n')], {}, {'__parent__': None}, 1), prog.site(mem[0], mem[1])
    specs = {
        'a': "self.amplitude(n)*cos(self.phase(n))",
        'b': "-self.amplitude(n)*sin(self.phase(n))",
        'c': "self.amplitude(-n)/2*exp(-1j*self.phase(-n)) if n < 0 else self.amplitude(n)/2*exp(1j*self.phase(n))",
        'amplitude': "self._amplitude_coefficient(-n) if n < 0 else self._amplitude_coefficient(n)",
        'phase': "-self._phase_coefficient(-n) if n < 0 else self._phase_coefficient(n)",
    }
    for name, src in specs.items():
        ev, t, site = meth(name)
        # amplitude()/phase() results are real numbers: declare the call atoms real so that exp(j x) expands on both sides alike
        sp = spec(ev, src, env, m)
        c = compare_terms(t, sp)
        if c is not True:
            # the same comparison case by case (n < 0, n >= 0), with amplitude() / phase() / c() unfolded to the abstract coefficients: a
            # definition that relies on their symmetry (one expression for both signs of n, abs(n), conj(c(-n))) equals the case-by-case form
            inl = ('amplitude', 'phase', 'c') if name in ('a', 'b', 'c') else ()
            both = []
            for fact in ('<0', '>=0'):
                ev2, t2, _ = meth(name, facts=[(A('n'), fact)], inline=inl)
                sp2 = spec(ev2, src, env, m)
                both.append(compare_terms(t2, sp2))
            if all(x is True for x in both): c = True
            elif c is None and any(x is False for x in both): c = False
        rep.ob('R08.abc', name, c, f'{name}(n) = {t!r:.200}', site, lhs=t, rhs=sp)


def lookup(rep, prog, table):
    m = prog.mod(PF)
    # every wave class defined in the module is a key of the mapping
    waves = [n for n, c in m.defs.items() if isinstance(c, ast.ClassDef) and any(isinstance(x, ast.FunctionDef) and x.name == 'time_function' for x in c.body)
             and not any(ast.unparse(b).endswith('Protocol') for b in c.bases)]
    keys = {w[2].name for _, w, _ in table if w and w[0] == 'class'}
    for w in waves:
        rep.ob('R08.lookup', f'{w}:in-mapping', w in keys, 'has Fourier coefficients' if w in keys else f'{w} has a time function but no entry in fourier_series_mapping', prog.site(m, m.defs[w]))
    # fourier_series passes the three parameters to the right fields
    f = prog.func(PF, 'fourier_series')
    ev = Evaluator(prog)
    t = ev.call_fn(f.node, f.mod, [A('tf')], {}, {'__parent__': None}, 1)
    ok = None
    if isinstance(t, Opq) and t.k[0] == 'dispatchcall':
        _, tab, key, args, kw = t.k
        want = {'amplitude0': ev.getattr(A('tf'), 'amplitude', f.mod, 0), 'phase0': ev.getattr(A('tf'), 'phase', f.mod, 0), 'offset0': ev.getattr(A('tf'), 'offset', f.mod, 0)}
        # positional arguments are bound to the fields of EVERY class the table can dispatch to
        ok = True
        targets = list(tab.values()) if isinstance(tab, dict) else []
        if not targets: ok = None
        for cref in targets:
            if not (isinstance(cref, Ref) and cref.kind == 'class'): ok = None; break
            fl = [f_[0] for f_ in prog.dataclass_fields(cref.mod, cref.node) if f_[3]]
            if len(args) > len(fl) or any(k in fl[:len(args)] for k in kw): ok = False; break
            bound = dict(zip(fl, args)); bound.update(kw)
            if not (set(bound) == set(want) and all(term_equal(bound[k], want[k]) for k in want)): ok = False; break
        ok = bool(ok) and 'type' in repr(tkey(key))
    rep.ob('R08.lookup', 'fourier_series:wiring', ok, f'= {t!r:.240}', f.site)
    # periodic_function(name) returns exactly the wave class whose wavetype is `name`, for every class of the mapping
    g = prog.func(PF, 'periodic_function')
    for key, wave, harm in table:
        if not wave or wave[0] != 'class': continue
        ev = Evaluator(prog)
        wt = wavetype_of(prog, ev, wave[1], wave[2])
        if wt is None: continue
        r = ev.call_fn(g.node, g.mod, [wt], {}, {'__parent__': None}, 1)
        if isinstance(r, Opq) and r.k and r.k[0] == 'item' and isinstance(r.k[1], list): r = r.k[1][r.k[2]] if len(r.k[1]) > r.k[2] else r
        ok = isinstance(r, Ref) and r.kind == 'class' and r.name == wave[2].name
        rep.ob('R08.lookup', f"periodic_function('{wt}')", True if ok else (None if has_opaque(r) else False), f"-> {r!r:.80}", g.site)
