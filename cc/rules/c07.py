"""C07 -- every component becomes exactly one faithful network branch."""
from __future__ import annotations
import ast
from ..api import A, spec, call, call_ref
from ..terms import Evaluator, Poly, Rec, Cond, Opq, Comp, tkey, paths_of, term_equal, has_opaque, same
from ..report import AnalysisError
from . import translate as T


def run(rep, prog, tier):
    from .hidden import no_hidden_state
    rep.rule('R07.state', 'no hidden state in the anchored modules: no function writes a module-level object, no caching decorator / cached property')
    no_hidden_state(rep, 'R07.state', prog, ['Circuit/circuit.py', 'Circuit/transformers.py', 'Circuit/components.py', 'Network/elements.py', 'SignalProcessing/periodic_functions.py'])
    rep.rule('R07.exhaustive', 'every kind constructible in Circuit/components.py (minus ground) is a key of the dispatch table `transformers`')
    rep.rule('R07.keys', 'per kind: value keys read by the translator are written by the constructor, and every stored constructor parameter reaches the branch')
    rep.rule('R07.identity', 'every returning path of every translator yields Branch(c.nodes[0], c.nodes[1], element(name=c.id))')
    rep.rule('R07.immittance/phasor/gate', 'normal form of the translated element equals the per-kind formula of the property statement; gated iff the kind carries a frequency')
    rep.rule('R07.domain', 'boundary values are admitted: every sign-constrained constructor parameter accepts 0')
    rep.rule('R07.traversal', 'transform_circuit is one comprehension over circuit.components filtered only by table membership, reference node = circuit.ground_node; ground selection rule of Circuit.__post_init__')
    rep.assume('element values are finite (np.isfinite folds to True)')
    rep.assume('w_resolution >= 0')
    kinds, tr = T.rule_exhaustive(rep, prog)
    T.rule_keys(rep, prog, kinds, tr)
    for kind, ent in sorted(tr.items()):
        if ent is None:
            rep.ob('R07.identity', kind, None, 'table value does not resolve to a package function'); continue
        written = kinds.get(kind, {}).get('written', {})
        T.check_kind(rep, prog, kind, ent[0], ent[1], written, pid_rule='R07')
    traversal(rep, prog)
    domain(rep, prog, kinds)
    rep.extra['exhaustive'] = True
    rep.extra['kinds'] = sorted(kinds)


def domain(rep, prog, kinds):
    """admissible boundary values are not rejected: a constrained parameter may be 0 (w = 0 is the dc case, R = 0 an ideal source)"""
    from .c19 import CONSTRAINED
    m = prog.mod(T.CP)
    for kind, info in sorted(kinds.items()):
        fn = info['node']
        ps = [a.arg for a in fn.args.args + fn.args.kwonlyargs]
        todo = [p for p in ps if p in CONSTRAINED]
        if not todo: continue
        ev = Evaluator(prog)
        ev.call_fn(fn, m, [], {p: A(p) for p in ps}, {'__parent__': None}, 1)
        for p in todo:
            sg = ev.sign(A(p))
            rep.ob('R07.domain', f'{kind}.{p}=0', '=0' in sg, f'{p} = 0 is accepted' if '=0' in sg else
                   f'components.{info["fn"]} rejects {p} = 0 (admissible: w = 0 is the dc case, zero internal resistance an ideal source)', info['site'])


def traversal(rep, prog):
    f = prog.func('Circuit.circuit', 'transform_circuit')
    ev = Evaluator(prog)
    term = call(ev, f, [A('circuit'), A('w'), A('wres')])
    site = f.site
    ok, why = True, ''
    if not (isinstance(term, Rec) and term.cls == 'Network'):
        rep.ob('R07.traversal', 'transform_circuit:shape', None, f'does not return Network(...): {term!r:.100}', site); return
    br = term.f.get('branches')
    comps = ev.getattr(A('circuit'), 'components', f.mod, 0)
    if not (isinstance(br, Comp) and len(br.gens) == 1 and term_equal(br.gens[0][0], comps)):
        # a loop that can leave early (break / return inside the loop) drops every later component
        early = [n for lp in ast.walk(f.node) if isinstance(lp, (ast.For, ast.While)) for n in ast.walk(lp) if isinstance(n, (ast.Break, ast.Return))]
        if early:
            rep.ob('R07.traversal', 'transform_circuit:one-pass', False,
                   f'the traversal of circuit.components can stop early (`{type(early[0]).__name__.lower()}` at line {early[0].lineno}): components listed after that point are silently omitted', site)
        else:
            rep.ob('R07.traversal', 'transform_circuit:one-pass', None if not isinstance(br, Comp) else False,
                   f'branches is not a single pass over circuit.components: {br!r:.160}', site)
    else:
        rep.ob('R07.traversal', 'transform_circuit:one-pass', True, 'branches = [translate(c) for c in circuit.components ...] (one generator)', site)
        elem = ev.elem_of(comps, 0)
        # element term must be a dispatch on the SAME component's type, applied to the same component
        e = br.elt
        okd = isinstance(e, Opq) and e.k[0] == 'dispatchcall'
        if okd:
            _, table, key, args, kw = e.k
            tr_tab = ev.lookup('transformers', {'__parent__': None}, prog.mod(T.TR))
            okd = (same(table, tr_tab) and term_equal(key, ev.getattr(elem, 'type', f.mod, 0)) and len(args) >= 3 and not kw
                   and term_equal(args[0], elem) and term_equal(args[1], A('w')) and term_equal(args[2], A('wres')))
        rep.ob('R07.traversal', 'transform_circuit:dispatch', True if okd else (None if has_opaque(br.elt) else False),
               'element = transformers[c.type](c, w, w_resolution) for the same c' if okd else f'element term {br.elt!r:.200}', site)
        filt = br.gens[0][1]
        okf = len(filt) <= 1 and all(isinstance(x, Opq) and x.k[0] == 'in' and tkey(x.k[1]) == tkey(ev.getattr(elem, 'type', f.mod, 0)) for x in filt)
        rep.ob('R07.traversal', 'transform_circuit:filter', True if okf else False,
               'only filter is membership of c.type in the table' if okf else f'unexpected filters {filt!r:.200}: components can be omitted', site)
    # transform(): one network per listed frequency, analysed at that frequency with the given resolution
    ft = prog.func('Circuit.circuit', 'transform')
    evt = Evaluator(prog); evt.opaque_fns |= {('Circuit.circuit', 'transform_circuit')}
    tt = call(evt, ft, [A('circuit'), A('ws'), A('wres')])
    okt = None
    if isinstance(tt, Comp) and len(tt.gens) == 1 and not tt.gens[0][1]:
        wk = evt.elem_of(tt.gens[0][0], 0)
        at = tt.elt.as_atom() if isinstance(tt.elt, Poly) else None
        okt = bool(term_equal(tt.gens[0][0], A('ws')) and at and at[0] == 'call' and at[1] == ('fn', 'transform_circuit') and list(at[2]) == [tkey(A('circuit')), tkey(wk), tkey(A('wres'))] and not at[3])
        if not okt and not has_opaque(tt): okt = False
    rep.ob('R07.traversal', 'transform:per-frequency', okt, f'transform = {tt!r:.200}', ft.site)
    gz = term.f.get('node_zero_label')
    okz = term_equal(gz, ev.getattr(A('circuit'), 'ground_node', f.mod, 0))
    rep.ob('R07.traversal', 'transform_circuit:reference', True if okz else (None if has_opaque(gz) else False),
           f'node_zero_label = {gz!r}', site)
    # ---- ground selection in Circuit.__post_init__
    m = prog.mod('Circuit.circuit')
    cls = m.defs.get('Circuit')
    mem = prog.find_member(m, cls, '__post_init__') if cls is not None else None
    if not mem:
        rep.ob('R07.traversal', 'Circuit:ground', None, 'Circuit.__post_init__ not found'); return
    ev2 = Evaluator(prog); ev2.self_class = (m, cls)          # initialisation split into private methods is followed
    ev2.call_fn(mem[1], mem[0], [A('self')], {}, {'__parent__': None}, 1)
    gn = ev2.stores.get(('self', 'ground_node'))
    # expected: IF len(components)==0: '' ; IF no ground: components[0].nodes[0] else ground_nodes[0]
    site2 = prog.site(mem[0], mem[1])
    leaves = [l for _, l in paths_of(gn)] if gn is not None else []
    comps = ev2.getattr(A('self'), 'components', m, 0)
    first = ev2.getitem(ev2.getattr(ev2.getitem(comps, Poly.const(0)), 'nodes', m, 0), Poly.const(0))
    has_first = any(term_equal(l, first) for l in leaves)
    elem = ev2.elem_of(comps, 0)
    gcomp = Comp(ev2.getitem(ev2.getattr(elem, 'nodes', m, 0), Poly.const(0)), [(comps, [ev2.compare(ast.Eq(), ev2.getattr(elem, 'type', m, 0), 'ground')])], 'list')
    has_ground = any(isinstance(l, Opq) and l.k[0] == 'item' and term_equal(l.k[1], gcomp) and l.k[2] == 0 for l in leaves)
    ok = has_first and has_ground
    rep.ob('R07.traversal', 'Circuit:ground', True if ok else (None if gn is None or any(has_opaque(l) for l in leaves) else False),
           'ground_node = first node of the ground component, else components[0].nodes[0]' if ok else f'ground_node = {gn!r:.300}', site2, lhs=gn)
