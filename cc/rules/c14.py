"""C14 -- numbers written on a schematic are the true circuit quantities: sign rule, accessor/unit pairing, option forwarding."""
from __future__ import annotations
import ast
from ..api import A, spec, call_ref
from ..terms import Evaluator, Poly, Rec, Cond, Opq, Comp, Ref, tkey, paths_of, term_equal, has_opaque, compare_terms, as_poly
from ..prog import params_of
from ..report import AnalysisError
from .c18 import si_tables

DS = 'SimpleCircuit.DiagramSolution'
DSP = 'SimpleCircuit.Display'
SCH = 'SimpleSimulation.schematic'

# adapter class -> (formatter, options forwarded as keyword -> term over self)
ADAPTERS = {
    'TimeDomainSteadyStateDiagramSolution': ('print_sinosoidal', {'precision': 'self.precision', 'w': 'self.solution.w', 'sin': 'self.sin', 'deg': 'self.deg', 'hertz': 'self.hertz'}),
    'ComplexNetworkDiagramSolution': ('print_complex', {'precision': 'self.precision', 'polar': 'self.polar', 'deg': 'self.deg'}),
    'RealNetworkDiagramSolution': ('print_real', {'precision': 'self.precision'}),
}
UNITS = {'voltage': 'V', 'current': 'A', 'power': 'W', 'potential': 'V'}


def run(rep, prog, tier):
    from .hidden import no_hidden_state
    rep.rule('R14.state', 'no hidden state in the anchored modules: no function writes a module-level object, no caching decorator / cached property')
    no_hidden_state(rep, 'R14.state', prog, ['SimpleCircuit/DiagramSolution.py', 'SimpleCircuit/Display.py', 'SimpleSimulation/schematic.py', 'SimpleSimulation/simulator.py', 'Utils.py'])
    rep.rule('R14.sign', 'the value handed to the formatter is (-1 if reverse else 1) * solution.get_Q(name) for voltage, current and power; potentials are unsigned')
    rep.rule('R14.pair', 'get_Q -> solution.get_Q with unit V / A / W / V (active power through print_active_power); display options forwarded from the adapter\'s own fields')
    rep.rule('R14.draw', 'draw_Q asks the solution for the same name and direction it labels; constructors forward w / precision / polar / deg; every declarative solution kind maps to a constructor accepting `schematic`')
    rep.rule('R14.si', 'SI prefix tables of the display helpers (shared with C18)')
    rep.assume('NOT DECIDED: the rendered text for actual numbers (C18 covers the table part only)')
    m = prog.mod(DS)
    disp = prog.mod(DSP)
    opaque = {(DSP, n) for n, d in disp.defs.items() if isinstance(d, ast.FunctionDef)}
    for cname, (fmt, opts) in ADAPTERS.items():
        cls = m.defs.get(cname)
        if not isinstance(cls, ast.ClassDef):
            rep.ob('R14.sign', f'{cname}', None, 'adapter class not found'); continue
        for q, unit in UNITS.items():
            mem = prog.find_member(m, cls, f'get_{q}')
            if not mem:
                rep.ob('R14.sign', f'{cname}.get_{q}', None, 'method missing', prog.site(m, cls)); continue
            ev = Evaluator(prog); ev.opaque_fns |= opaque
            args = [A('self'), A('name')] + ([A('reverse')] if q != 'potential' else [])
            t = ev.call_fn(mem[1], mem[0], args, {}, {'__parent__': None}, 1)
            site = prog.site(mem[0], mem[1])
            at = t.as_atom() if isinstance(t, Poly) else None
            if not (at and at[0] == 'call' and at[1][0] == 'fn'):
                rep.ob('R14.sign', f'{cname}.get_{q}', None, f'does not end in a formatter call: {t!r:.120}', site); continue
            fname = at[1][1]
            fdef = disp.defs.get(fname)
            pos = params_of(fdef)[0] if isinstance(fdef, ast.FunctionDef) else []
            kw = dict(at[3])
            for i, a in enumerate(at[2]):
                if i < len(pos): kw[pos[i]] = a
            # ---- sign
            X = ev.fresh().call_method(ev.getattr(A('self'), 'solution', m, 0), f'get_{q}', [A('name')], {}, m, 0)
            want = X if q == 'potential' else spec(ev, "-X if reverse else X", {'X': X, 'reverse': A('reverse')}, m)
            got_key = kw.get('value')
            c = None
            if got_key is not None:
                # compare keys: both are normal forms
                c = True if got_key == tkey(want) else (None if 'opq' in repr(got_key) and "'?'" in repr(got_key) else False)
            rep.ob('R14.sign', f'{cname}.get_{q}', c, f'formatter value = {_unkey(got_key)!r:.200}', site)
            # ---- pairing: formatter and unit
            want_fmt = 'print_active_power' if (q == 'power' and cname == 'RealNetworkDiagramSolution') else fmt
            unit_ok = (kw.get('unit') == unit) if want_fmt != 'print_active_power' else True
            rep.ob('R14.pair', f'{cname}.get_{q}:formatter', fname == want_fmt and unit_ok, f"{fname}(unit={kw.get('unit')!r})", site)
            # ---- options
            for o, src in opts.items():
                if o not in pos: continue
                wk = tkey(spec(ev, src, {'self': A('self')}, m))
                rep.ob('R14.pair', f'{cname}.get_{q}:{o}', kw.get(o) == wk, f'{o} = {_unkey(kw.get(o))!r:.80}', site)
    draw(rep, prog)
    constructors(rep, prog)
    from .c18 import polar_rule
    for key, ok, detail, site in polar_rule(prog):
        rep.ob('R14.si', key, ok, detail, site)
    # SI tables
    for key, ok, detail, site in si_tables(prog):
        rep.ob('R14.si', key, ok, detail, site)


def _unkey(k):
    try:
        if isinstance(k, tuple) and k and k[0] == 'poly': return Poly(dict(k[1:]))
    except Exception:
        pass
    return k


def draw(rep, prog):
    m = prog.mod(DS); cls = m.defs.get('SchematicDiagramSolution')
    if not isinstance(cls, ast.ClassDef):
        rep.ob('R14.draw', 'SchematicDiagramSolution', None, 'class not found'); return
    for q in ('voltage', 'current', 'power', 'potential'):
        fn = next((x for x in cls.body if isinstance(x, ast.FunctionDef) and x.name == f'draw_{q}'), None)
        if fn is None:
            rep.ob('R14.draw', f'draw_{q}', None, 'method missing'); continue
        calls = [n for n in ast.walk(fn) if isinstance(n, ast.Call) and ast.unparse(n.func) == f'self.solution.get_{q}']
        site = prog.site(m, fn)
        if not calls:
            rep.ob('R14.draw', f'draw_{q}', False, f'does not query self.solution.get_{q}', site); continue
        kw = {k.arg: ast.unparse(k.value) for k in calls[0].keywords}
        pos = [ast.unparse(a) for a in calls[0].args]
        name_ok = kw.get('name', pos[0] if pos else None) == 'name'
        rev_ok = q == 'potential' or kw.get('reverse', pos[1] if len(pos) > 1 else None) == 'reverse'
        elem = [n for n in ast.walk(fn) if isinstance(n, ast.Call) and ast.unparse(n.func) == 'self.diagram_parser.get_element']
        el_ok = bool(elem) and (ast.unparse(elem[0].args[0]) if elem[0].args else None) == 'name'
        rep.ob('R14.draw', f'draw_{q}', name_ok and rev_ok and el_ok, f'get_{q}({kw or pos}), element looked up by the same name: {el_ok}', site)
        # arrow direction of the label: reverse XOR element.is_reverse
        if q in ('voltage', 'current'):
            lab = [n for n in ast.walk(fn) if isinstance(n, ast.Call) and ast.unparse(n.func).endswith('Label')]
            okd = False
            if lab:
                kwl = {k.arg: k.value for k in lab[0].keywords}
                r = kwl.get('reverse')
                el_name = None
                for a_ in ast.walk(fn):
                    if isinstance(a_, ast.Assign) and isinstance(a_.value, ast.Call) and ast.unparse(a_.value.func) == 'self.diagram_parser.get_element' and isinstance(a_.targets[0], ast.Name):
                        el_name = a_.targets[0].id
                okd = r is not None and el_name is not None and ast.unparse(r).replace(' ', '') in (
                    f'reverseifnot{el_name}.is_reverseelsenotreverse', f'notreverseif{el_name}.is_reverseelsereverse', f'reverse!={el_name}.is_reverse', f'reverse^{el_name}.is_reverse')
            rep.ob('R14.draw', f'draw_{q}:arrow', okd, 'label arrow = reverse XOR element.is_reverse', site)


def constructors(rep, prog):
    m = prog.mod(DS); sm = prog.mod(SCH)
    # each constructor forwards its options to the adapter and builds the solution from the translated circuit
    want = {
        'real_solution': ('RealNetworkDiagramSolution', 'DCSolution', {'precision': 'precision'}, {}),
        'complex_solution': ('ComplexNetworkDiagramSolution', 'ComplexSolution', {'precision': 'precision', 'polar': 'polar', 'deg': 'deg'}, {}),
        'single_frequency_complex_solution': ('ComplexNetworkDiagramSolution', 'ComplexSolution', {'precision': 'precision', 'polar': 'polar', 'deg': 'deg'}, {'w': 'w'}),
        'single_frequency_time_domain_steady_state_solution': ('TimeDomainSteadyStateDiagramSolution', 'ComplexSolution', {'deg': 'deg', 'hertz': 'hertz', 'sin': 'sin'}, {'w': 'w'}),
    }
    for fname, (adapter, sol, aopts, sopts) in want.items():
        fn = m.defs.get(fname)
        if not isinstance(fn, ast.FunctionDef):
            rep.ob('R14.draw', f'ctor:{fname}', None, 'constructor not found'); continue
        site = prog.site(m, fn)
        ac = [n for n in ast.walk(fn) if isinstance(n, ast.Call) and ast.unparse(n.func) == adapter]
        sc = [n for n in ast.walk(fn) if isinstance(n, ast.Call) and ast.unparse(n.func) == sol]
        ok = bool(ac) and bool(sc)
        detail = ''
        if ok:
            akw = {k.arg: ast.unparse(k.value) for k in ac[0].keywords}
            skw = {k.arg: ast.unparse(k.value) for k in sc[0].keywords}
            ok = all(akw.get(k) == v for k, v in aopts.items()) and all(skw.get(k) == v for k, v in sopts.items()) and skw.get('circuit') == 'circuit_translator(schematic)'
            detail = f'{adapter}({akw}) / {sol}({skw})'
        rep.ob('R14.draw', f'ctor:{fname}', ok, detail or 'adapter / solution construction not found', site)
    for key, kn, vn in prog.table(SCH, 'solutions'):
        r = prog.resolve_expr(sm, vn)
        ok = bool(r and r[0] == 'func' and 'schematic' in params_of(r[2])[0])
        rep.ob('R14.draw', f'solutions[{key!r}]', ok, f'-> {ast.unparse(vn)}' + ('' if ok else ' does not accept `schematic`'), prog.site(sm, vn))
