"""C14 -- numbers written on a schematic are the true circuit quantities: sign rule, accessor/unit pairing, option forwarding."""
from __future__ import annotations
import ast
from ..api import A, spec, call_ref, bound_args
from ..terms import Evaluator, Poly, Rec, Cond, Opq, Comp, Ref, tkey, paths_of, term_equal, has_opaque, compare_terms, as_poly, term_from_key
from ..prog import params_of
from ..report import AnalysisError
from .c18 import si_tables

DS = 'SimpleCircuit.DiagramSolution'
DSP = 'SimpleCircuit.Display'
SCH = 'SimpleSimulation.schematic'

# adapter class -> (formatter, options forwarded as keyword -> term over self)
ADAPTERS = {
    'TimeDomainSteadyStateDiagramSolution': ('print_sinosoidal', {'precision': 'self.precision', 'w': 'self.solution.w', 'sin': 'self.sin', 'deg': 'self.deg', 'hertz': 'self.hertz'}),
    'ComplexNetworkDiagramSolution': ('print_complex', {'precision': 'self.precision', 'polar': 'self.polar', 'deg': 'self.deg'}),
    'RealNetworkDiagramSolution': ('print_real', {'precision': 'self.precision'}),
}
UNITS = {'voltage': 'V', 'current': 'A', 'power': 'W', 'potential': 'V'}


def run(rep, prog, tier):
    from .hidden import no_hidden_state
    rep.rule('R14.state', 'no hidden state in the anchored modules: no function writes a module-level object, no caching decorator / cached property')
    no_hidden_state(rep, 'R14.state', prog, ['SimpleCircuit/DiagramSolution.py', 'SimpleCircuit/Display.py', 'SimpleSimulation/schematic.py', 'SimpleSimulation/simulator.py', 'Utils.py'])
    rep.rule('R14.sign', 'the value handed to the formatter is (-1 if reverse else 1) * solution.get_Q(name) for voltage, current and power; potentials are unsigned')
    rep.rule('R14.pair', 'get_Q -> solution.get_Q with unit V / A / W / V (active power through print_active_power); display options forwarded from the adapter\'s own fields')
    rep.rule('R14.draw', 'draw_Q asks the solution for the same name and direction it labels; constructors forward w / precision / polar / deg; every declarative solution kind maps to a constructor accepting `schematic`')
    rep.rule('R14.si', 'SI prefix tables of the display helpers (shared with C18)')
    rep.assume('NOT DECIDED: the rendered text for actual numbers (C18 covers the table part only)')
    m = prog.mod(DS)
    disp = prog.mod(DSP)
    opaque = {(DSP, n) for n, d in disp.defs.items() if isinstance(d, ast.FunctionDef)}
    for cname, (fmt, opts) in ADAPTERS.items():
        cls = m.defs.get(cname)
        if not isinstance(cls, ast.ClassDef):
            rep.ob('R14.sign', f'{cname}', None, 'adapter class not found'); continue
        for q, unit in UNITS.items():
            mem = prog.find_member(m, cls, f'get_{q}')
            if not mem:
                rep.ob('R14.sign', f'{cname}.get_{q}', None, 'method missing', prog.site(m, cls)); continue
            ev = Evaluator(prog); ev.opaque_fns |= opaque; ev.self_class = (m, cls)       # private helpers of the adapter are followed
            args = [A('self'), A('name')] + ([A('reverse')] if q != 'potential' else [])
            t = ev.call_fn(mem[1], mem[0], args, {}, {'__parent__': None}, 1)
            site = prog.site(mem[0], mem[1])
            # the formatter call on every path (a direction test hoisted out of the call is the same value as a conditional argument)
            def leaf_call(l):
                a_ = l.as_atom() if isinstance(l, Poly) else None
                if not (isinstance(a_, tuple) and a_[0] == 'call' and a_[1][0] == 'fn'): return None
                fdef_ = disp.defs.get(a_[1][1])
                pos_ = params_of(fdef_)[0] if isinstance(fdef_, ast.FunctionDef) else []
                kw_ = dict(a_[3])
                for i, x in enumerate(a_[2]):
                    if i < len(pos_): kw_[pos_[i]] = x
                return a_[1][1], kw_, pos_
            leaves = [leaf_call(l) for _, l in paths_of(t)]
            if not leaves or any(l is None for l in leaves) or len({(l[0], tuple(sorted((k, v) for k, v in l[1].items() if k != 'value'))) for l in leaves}) != 1:
                rep.ob('R14.sign', f'{cname}.get_{q}', None, f'does not end in one formatter call: {t!r:.120}', site); continue
            fname, kw, pos = leaves[0]
            def values(v):
                if isinstance(v, Cond): return Cond(v.g, values(v.a), values(v.b))
                k_ = leaf_call(v)[1].get('value')
                return term_from_key(k_) if k_ is not None else Opq('?', 'no value')
            got = values(t)
            # ---- sign
            X = ev.fresh().call_method(ev.getattr(A('self'), 'solution', m, 0), f'get_{q}', [A('name')], {}, m, 0)
            want = X if q == 'potential' else spec(ev, "-X if reverse else X", {'X': X, 'reverse': A('reverse')}, m)
            c = compare_terms(got, want)
            rep.ob('R14.sign', f'{cname}.get_{q}', c, f'formatter value = {got!r:.200}', site)
            # ---- pairing: formatter and unit
            want_fmt = 'print_active_power' if (q == 'power' and cname == 'RealNetworkDiagramSolution') else fmt
            unit_ok = (kw.get('unit') == unit) if want_fmt != 'print_active_power' else True
            rep.ob('R14.pair', f'{cname}.get_{q}:formatter', fname == want_fmt and unit_ok, f"{fname}(unit={kw.get('unit')!r})", site)
            # ---- options
            for o, src in opts.items():
                if o not in pos: continue
                wk = tkey(spec(ev, src, {'self': A('self')}, m))
                rep.ob('R14.pair', f'{cname}.get_{q}:{o}', kw.get(o) == wk, f'{o} = {_unkey(kw.get(o))!r:.80}', site)
    draw(rep, prog)
    constructors(rep, prog)
    from .c18 import polar_rule
    for key, ok, detail, site in polar_rule(prog):
        rep.ob('R14.si', key, ok, detail, site)
    # SI tables
    for key, ok, detail, site in si_tables(prog):
        rep.ob('R14.si', key, ok, detail, site)


def _unkey(k):
    try:
        if isinstance(k, tuple) and k and k[0] == 'poly': return Poly(dict(k[1:]))
    except Exception:
        pass
    return k


def _bound(at, params):
    """{parameter: argument key} of a call atom, positional arguments bound to the given parameter names"""
    if not (isinstance(at, tuple) and len(at) == 4 and at[0] == 'call'): return None
    out = dict(at[3])
    for p_, a_ in zip(params, at[2]):
        if p_ in out: return None
        out[p_] = a_
    if len(at[2]) > len(params): return None
    return out


def _atom(t):
    return t.as_atom() if isinstance(t, Poly) else None


LABELS = {'voltage': 'VoltageLabel', 'current': 'CurrentLabel', 'power': 'PowerLabel', 'potential': 'LabelNode'}


def draw(rep, prog):
    """draw_Q labels the element of the requested name with the text the solution gives for the SAME name and direction, and the arrow of the
    label is drawn reverse XOR element.is_reverse -- read off the label constructor call each method returns"""
    m = prog.mod(DS); cls = m.defs.get('SchematicDiagramSolution')
    if not isinstance(cls, ast.ClassDef):
        rep.ob('R14.draw', 'SchematicDiagramSolution', None, 'class not found'); return
    def run_(q, mem, rev, isrev=None):
        ev = Evaluator(prog); ev.opaque_classes = set(getattr(ev, 'opaque_classes', ())) | set(LABELS.values())
        selfv = Rec('SchematicDiagramSolution', {'diagram_parser': A('parser'), 'solution': A('solution')}, (m, cls))
        elems = [_atom(spec(ev, src, {'parser': A('parser'), 'name': A('name')}, m)) for src in ('parser.get_element(name)', 'parser.get_element(name=name)')]
        if isrev is not None:
            for e_ in elems: ev.stores[(e_, 'is_reverse')] = isrev
        params = params_of(mem[1])[0]
        kw = {'reverse': rev} if 'reverse' in params[2:] else {}
        t = ev.call_fn(mem[1], mem[0], [selfv, A('name')], kw, {'__parent__': None}, 1)
        return ev, t, elems
    for q in ('voltage', 'current', 'power', 'potential'):
        mem = prog.find_member(m, cls, f'draw_{q}')
        if not mem:
            rep.ob('R14.draw', f'draw_{q}', None, 'method missing'); continue
        site = prog.site(mem[0], mem[1])
        ev, t, elems = run_(q, mem, A('reverse'))
        at = _atom(t)
        if not (isinstance(at, tuple) and at[0] == 'call' and at[1] == ('cls', LABELS[q])):
            rep.ob('R14.draw', f'draw_{q}', None, f'does not return a {LABELS[q]}: {t!r:.120}', site); continue
        vals = list(at[2]) + [v for _, v in at[3]]
        # the text of the label: solution.get_Q(name[, reverse])
        texts = []
        for v in vals:
            try: va = _atom(term_from_key(v))
            except Exception: va = None
            if isinstance(va, tuple) and va[0] == 'call' and isinstance(va[1], tuple) and va[1][:2] == ('.', 'solution'):
                texts.append(va)
        if len(texts) != 1:
            rep.ob('R14.draw', f'draw_{q}', False if not texts else None, f'does not label with exactly one value of the solution: {t!r:.160}', site); continue
        ta = texts[0]
        bound = _bound(ta, ['name', 'reverse'])
        name_ok = bound is not None and ta[1][2] == f'get_{q}' and bound.get('name') == tkey(A('name'))
        rev_ok = q == 'potential' or (bound is not None and bound.get('reverse') == tkey(A('reverse')))
        el_ok = any(v == tkey(Poly.atom(e_)) for v in vals for e_ in elems) or (q == 'potential' and any(repr(e_) in repr(vals) for e_ in elems))
        rep.ob('R14.draw', f'draw_{q}', bool(name_ok and rev_ok and el_ok), f'{ta[1][2]}({bound}), element looked up by the same name: {el_ok}', site)
        # arrow direction of the label: reverse XOR element.is_reverse, decided on the four combinations
        if q in ('voltage', 'current'):
            res = []
            for rev in (False, True):
                for isrev in (False, True):
                    _, t2, _ = run_(q, mem, rev, isrev)
                    a2 = _atom(t2)
                    got = dict(a2[3]).get('reverse') if isinstance(a2, tuple) and a2[0] == 'call' else None
                    res.append(None if got not in (True, False) else (got == (rev != isrev)))
            okd = False if False in res else (None if None in res else True)
            rep.ob('R14.draw', f'draw_{q}:arrow', okd, f'label arrow = reverse XOR element.is_reverse on the four combinations: {res}', site)


def constructors(rep, prog):
    m = prog.mod(DS); sm = prog.mod(SCH)
    # each constructor forwards its options to the adapter and builds the solution from the translated circuit -- read off the object it returns
    want = {
        'real_solution': ('RealNetworkDiagramSolution', 'DCSolution', {'precision': 'precision'}, {}),
        'complex_solution': ('ComplexNetworkDiagramSolution', 'ComplexSolution', {'precision': 'precision', 'polar': 'polar', 'deg': 'deg'}, {}),
        'single_frequency_complex_solution': ('ComplexNetworkDiagramSolution', 'ComplexSolution', {'precision': 'precision', 'polar': 'polar', 'deg': 'deg'}, {'w': 'w'}),
        'single_frequency_time_domain_steady_state_solution': ('TimeDomainSteadyStateDiagramSolution', 'ComplexSolution', {'deg': 'deg', 'hertz': 'hertz', 'sin': 'sin'}, {'w': 'w'}),
    }
    for fname, (adapter, sol, aopts, sopts) in want.items():
        fn = m.defs.get(fname)
        if not isinstance(fn, ast.FunctionDef):
            rep.ob('R14.draw', f'ctor:{fname}', None, 'constructor not found'); continue
        site = prog.site(m, fn)
        ev = Evaluator(prog); ev.opaque_classes = set(getattr(ev, 'opaque_classes', ())) | {'ComplexSolution', 'DCSolution'}
        ev.opaque_fns.add(('SimpleCircuit.DiagramTranslator', 'circuit_translator'))
        pos = params_of(fn)[0]
        t = call_ref(ev, m, fn, [A(p_) for p_ in pos[:1]], {p_: A(p_) for p_ in pos[1:]})
        ad = t.f.get('solution') if isinstance(t, Rec) else None
        if not isinstance(ad, Rec):
            rep.ob('R14.draw', f'ctor:{fname}', None, f'adapter / solution construction not followed: {t!r:.120}', site); continue
        sa = _atom(ad.f.get('solution'))
        sb = bound_args(prog, sa) if isinstance(sa, tuple) and sa[0] == 'call' and sa[1][0] == 'cls' else None
        circ = _atom(spec(ev, 'circuit_translator(schematic)', {'schematic': A('schematic')}, m))
        ok = ad.cls == adapter and sb is not None and sa[1][1] == sol
        if ok:
            ok = all(tkey(ad.f.get(k)) == tkey(A(v)) for k, v in aopts.items()) and all(sb.get(k) == tkey(A(v)) for k, v in sopts.items()) and sb.get('circuit') == tkey(Poly.atom(circ))
        pr = t.f.get('diagram_parser')
        okp = isinstance(pr, Rec) and pr.cls == 'SchematicDiagramParser' and tkey(pr.f.get('drawing')) == tkey(A('schematic'))
        rep.ob('R14.draw', f'ctor:{fname}', bool(ok and okp), f'{ad.cls}({ {k: ad.f.get(k) for k in aopts} }) / {sa[1][1] if sb is not None else sa}({sb})', site)
    for key, kn, vn in prog.table(SCH, 'solutions'):
        r = prog.resolve_expr(sm, vn)
        ok = bool(r and r[0] == 'func' and 'schematic' in params_of(r[2])[0])
        rep.ob('R14.draw', f'solutions[{key!r}]', ok, f'-> {ast.unparse(vn)}' + ('' if ok else ' does not accept `schematic`'), prog.site(sm, vn))
