"""Entry points of the index-space analysis (E4) and the projection of its obligations onto properties."""
from __future__ import annotations
import ast
from ..spaces import Interp, V, TOP, show
from ..report import AnalysisError

NA = 'Network.NodalAnalysis.node_analysis'
BP = 'Network.NodalAnalysis.bias_point_analysis'
SS = 'Network.NodalAnalysis.state_space_model'
CSS = 'Circuit.state_space_model'
CS = 'Circuit.solution'

_CACHE = {}


def _cls(prog, short, name):
    m = prog.mod(short); c = m.defs.get(name)
    if not isinstance(c, ast.ClassDef): raise AnalysisError(f'class {short}.{name} not found')
    return m, c


class _View:
    """presents a typing result of the normal-form engine (E4t) with the attributes the layout rules read"""
    pass


def _as_v(t):
    if t is None: return None
    if t[0] == 'arr': return V('array', axes=list(t[1]))
    if t[0] == 'tuple': return V('tuple', items=[_as_v(x) for x in t[1]])
    if t[0] == 'labs': return V('list', space=t[1], elem=V('label', space=t[1]))
    if t[0] == 'obj': return V('obj', cls=t[1], fields={})
    return V('top')


def analyse(prog):
    """run every entry point once; returns {entry: object with .obs and the entry's results}.  The index spaces are inferred on the
    normal forms of the term evaluator (cc.spacet); VERIF_E4=ast selects the older syntax-directed interpreter for comparison."""
    import os
    if os.environ.get('VERIF_E4') == 'ast': return analyse_ast(prog)
    if hasattr(prog, '_spaces_v'): return prog._spaces_v
    from . import spacerules_t as ST
    raw = ST.analyse(prog)
    out = {}
    for name, e in raw.items():
        v = _View(); v.obs = e.obs; v.signs = []
        for attr in ('result_coef', 'result_rhs', 'result', 'sources'):
            if hasattr(e, attr): setattr(v, attr, _as_v(getattr(e, attr)))
        if name == 'wrapper' and getattr(e, 'result', None) is not None and e.result[0] == 'obj':
            f = dict(e.result[2])
            v.fields = {k: _as_v(e.ty.ty(f[k])) for k in 'ABCD' if k in f}
        out[name] = v
    prog._spaces_v = out
    return out


def analyse_ast(prog):
    """run every entry point once; returns {entry: Interp}"""
    if hasattr(prog, '_spaces'): return prog._spaces
    out = {}
    lab = lambda: V('label', space=('S', 'any', 'any'))
    # ---- MNA assembly
    it = Interp(prog); m = prog.mod(NA)
    out['mna'] = it
    it.result_coef = it.call_function(m, m.defs['nodal_analysis_coefficient_matrix'], [V('network', ident=0)], {})
    it.result_rhs = it.call_function(m, m.defs['nodal_analysis_constants_vector'], [V('network', ident=0)], {})
    # ---- bias point solution object and its accessors
    it = Interp(prog); out['bias'] = it
    bm, bc = _cls(prog, BP, 'NodalAnalysisBiasPointSolution')
    ctx_obj = it.make_object(bm, bc, {'network': V('network', ident=0)})
    mem = prog.find_member(bm, bc, '__post_init__')
    it.call_function(mem[0], mem[1], [], {}, None, ctx_obj, 0, 'NodalAnalysisBiasPointSolution.__post_init__')
    for meth in ('get_potential', 'get_current', 'get_voltage', 'get_power'):
        mem = prog.find_member(bm, bc, meth)
        if mem: it.call_function(mem[0], mem[1], [lab()], {}, None, ctx_obj, 0, f'NodalAnalysisBiasPointSolution.{meth}')
    # ---- state-space matrices and model object
    it = Interp(prog); out['ssm'] = it
    sm = prog.mod(SS)
    cv, lv = V('dictparam', name='c_values'), V('dictparam', name='l_values')
    it.result = it.call_function(sm, sm.defs['state_space_matrices'], [V('network', ident=0)], {'c_values': cv, 'l_values': lv})
    it = Interp(prog); out['model'] = it
    model = it.call_function(sm, sm.defs['nodal_state_space_model'], [V('network', ident=0)], {'c_values': cv, 'l_values': lv})
    it.model = model
    if model is None or model.kind != 'obj':
        raise AnalysisError('nodal_state_space_model does not return a model object the analysis can follow')
    it.obs = []     # assembly obligations are reported under 'ssm'; keep only the accessors here
    _, mc = _cls(prog, SS, 'NodalStateSpaceModel')
    for meth in ('c_row_for_potential', 'c_row_voltage', 'c_row_current', 'd_row_for_potential', 'd_row_voltage', 'd_row_current'):
        mem = prog.find_member(sm, mc, meth)
        if mem: it.call_function(mem[0], mem[1], [lab()], {}, None, model, 0, f'NodalStateSpaceModel.{meth}')
    mem = prog.find_member(sm, mc, 'sources')
    it.sources = it.call_function(mem[0], mem[1], [], {}, None, model, 0, 'NodalStateSpaceModel.sources') if mem else None
    # ---- circuit-level wrapper
    it = Interp(prog); out['wrapper'] = it
    cm = prog.mod(CSS)
    lst = lambda: V('list', space=('S', 'requested', 'listing'), elem=lab())
    it.result = it.call_function(cm, cm.defs['state_space_model'], [V('circuit')], {'potential_nodes': lst(), 'voltage_ids': lst(), 'current_ids': lst()})
    # ---- transient solution
    it = Interp(prog); out['transient'] = it
    tm, tc = _cls(prog, CS, 'TransientSolution')
    obj = it.make_object(tm, tc, {'circuit': V('circuit'), 'tin': V('array', axes=[('T', 'samples')]), 'input': V('top')})
    mem = prog.find_member(tm, tc, '__post_init__')
    it.call_function(mem[0], mem[1], [], {}, None, obj, 0, 'TransientSolution.__post_init__')
    it.obj = obj
    n_init = len(it.obs)
    for meth in ('get_potential', 'get_voltage', 'get_current', 'get_power'):
        mem = prog.find_member(tm, tc, meth)
        if mem: it.call_function(mem[0], mem[1], [lab()], {}, None, obj, 0, f'TransientSolution.{meth}')
    # ---- port impedance
    it = Interp(prog); out['port'] = it
    it.result = it.call_function(m, m.defs['open_circuit_impedance'], [V('network', ident=0), lab(), lab()], {})
    prog._spaces = out
    return out


def emit(rep, rid, interps, entries, ordinal_scope=None):
    """turn the obligations of the given entries into report obligations keyed (function, kind, ordinal)"""
    n = 0
    for e in entries:
        it = interps[e]
        seen = {}
        for o in it.obs:
            k0 = f'{o.fn}:{o.kind}'
            seen[k0] = seen.get(k0, 0) + 1
            key = f'{e}/{k0}#{seen[k0]}'
            rep.ob(rid, key, o.verdict, f'{o.detail}  [{o.text}]', o.site)
            n += 1
    return n
