"""C09 -- multi-frequency steady state is a superposition of single-frequency solutions (frequency list, time formula, peak phasors)."""
from __future__ import annotations
import ast
from ..api import A, spec, call
from ..terms import _is_callable_term, Evaluator, Poly, Rec, Cond, Opq, Comp, Closure, tkey, paths_of, term_equal, has_opaque, compare_terms, as_poly
from ..report import AnalysisError
from . import translate as T
from .solutions import class_of, new_ev, init_self, method_term, OPAQUE_CIRCUIT, CS

CC = 'Circuit.circuit'


def run(rep, prog, tier):
    from .hidden import no_hidden_state
    rep.rule('R09.state', 'no hidden state in the anchored modules: no function writes a module-level object, no caching decorator / cached property')
    no_hidden_state(rep, 'R09.state', prog, ['Circuit/circuit.py', 'Circuit/solution.py', 'Circuit/transformers.py', 'SignalProcessing/periodic_functions.py'])
    rep.rule('R09.freqs', 'frequency_components yields per component [w] or [w*n for n in 0..floor(w_max/w)] (k=0 included), merges all lists, removes duplicates and sorts; components without frequency contribute nothing')
    rep.rule('R09.tolerance', 'every comparison of two angular frequencies in Circuit/ uses the frequency resolution; duplicates must not be removed by exact float hashing (contradiction rule)')
    rep.rule('R09.time', 'time functions are sum_k |X_k| cos(w_k t + arg X_k) over zip(values, self.w) where values come from the solutions built from transform(circuit, w=self.w) -- same order on both sides')
    rep.rule('R09.peak', 'the frequency-domain solution builds ComplexSolution(circuit, solver, w=w, peak_values=True) per listed frequency')
    rep.rule('R09.types', 'arithmetic is only applied to arrays of numbers: the two-sided branch must not multiply / conjugate an array of solution objects')
    rep.rule('R09.harmonic', 'periodic sources: n = round(w/w0), active iff |w/w0 - n| <= w_resolution/w0, amplitude and phase taken at the same n; voltage/current counterparts agree')
    rep.assume('NOT DECIDED: KCL at every instant, truncation error, superposition of actual waveforms')
    freqs(rep, prog)
    tolerance(rep, prog)
    time_domain(rep, prog)
    peak_and_types(rep, prog)
    harmonic(rep, prog)


FREQ_SPEC_GUARDED = ("sorted(set([f for c in circuit.components for f in "
                     "(([c.value['w']*n for n in arange(floor(w_max/c.value['w']) + 1)] if (c.type == 'periodic_voltage_source' or c.type == 'periodic_current_source') else [c.value['w']]) "
                     "if 'w' in c.value else [])]))")
FREQ_SPEC = ("sorted(set([f for c in circuit.components for f in "
             "([c.value['w']*n for n in arange(floor(w_max/c.value['w']) + 1)] if (c.type == 'periodic_voltage_source' or c.type == 'periodic_current_source') else [c.value['w']])]))")


def freqs(rep, prog):
    f = prog.func(CC, 'frequency_components')
    site = f.site
    ev = Evaluator(prog, real_atoms={'w_max'})
    t = call(ev, f, [A('circuit'), A('w_max')])
    from ..terms import Ref
    sp = spec(ev, FREQ_SPEC, {'circuit': A('circuit'), 'w_max': A('w_max'), 'arange': Ref('npfun', None, None, 'arange')}, f.mod)
    def strip(x, names):
        while isinstance(x, Opq) and x.k and x.k[0] in names and len(x.k) == 2: x = x.k[1]
        return x
    core_t, core_s = strip(t, ('sorted', 'list')), strip(sp, ('sorted', 'list'))
    k = repr(tkey(t))
    is_sorted = isinstance(t, Opq) and t.k and t.k[0] == 'sorted'
    rep.ob('R09.freqs', 'merge:sorted', bool(is_sorted), f'= {t!r:.160}', site)
    dedup = (isinstance(core_t, Comp) and core_t.kind == 'set') or (isinstance(core_t, Opq) and len(core_t.k) == 2 and core_t.k[0] == 'set') \
        or "'unique'" in k or 'fromkeys' in k or _tolerant_merge(f.node)
    rep.ob('R09.freqs', 'merge:distinct', bool(dedup), 'duplicates are removed', site)
    # the multiset of contributed frequencies: every component, [w] or all harmonics 0..floor(w_max/w)
    as_list = lambda c_: Comp(c_.elt, c_.gens, 'list') if isinstance(c_, Comp) else c_
    ok = term_equal(as_list(core_t), as_list(core_s))
    guarded = False
    if not ok:
        # the same list with components that carry no frequency excluded by an explicit membership test instead of a caught KeyError
        sp2 = spec(ev, FREQ_SPEC_GUARDED, {'circuit': A('circuit'), 'w_max': A('w_max'), 'arange': Ref('npfun', None, None, 'arange')}, f.mod)
        ok = guarded = term_equal(as_list(core_t), as_list(strip(sp2, ('sorted', 'list'))))
    rep.ob('R09.freqs', 'per-component', True if ok else (None if has_opaque(core_t) or not isinstance(core_t, Comp) else False),
           f'contributions = {core_t!r:.300}', site, lhs=core_t, rhs=core_s)
    # components without a frequency contribute no entry, a component with a frequency contributes it: the function evaluated on a circuit
    # with ONE literal component (decidable lookup errors), wherever the reading of value['w'] lives
    def one(val):
        from ..terms import Rec as _Rec
        e_ = Evaluator(prog); e_.raise_lookup_errors = True
        comp = _Rec('Component', {'type': 'resistor', 'id': 'X1', 'nodes': ('1', '2'), 'value': val})
        return call(e_, f, [_Rec('Circuit', {'components': [comp], 'ground_node': '0'}), A('w_max')])
    def entries(t_):
        # the listed frequencies, unwrapped from sorted(list(set(...)))
        while isinstance(t_, Opq) and t_.k and t_.k[0] in ('sorted', 'list', 'set') and len(t_.k) == 2 and isinstance(t_.k[1], (Opq, list, tuple)): t_ = t_.k[1]
        if isinstance(t_, Opq) and t_.k and t_.k[0] == 'set' and not any(isinstance(x_, (Opq, Comp, Cond)) for x_ in t_.k[1:]): return list(t_.k[1:])
        return list(t_) if isinstance(t_, (list, tuple)) else None
    e0, e1 = entries(one({'R': A('R')})), entries(one({'w': A('w0'), 'V': A('V')}))
    okh = None
    if e0 is not None and e1 is not None:
        okh = e0 == [] and len(e1) == 1 and tkey(e1[0]) == tkey(A('w0'))
    rep.ob('R09.freqs', 'no-frequency', okh, 'components without a frequency contribute no entry', site)


def _tolerant_merge(fn) -> bool:
    """a tolerance-aware de-duplication: some comparison of a difference of two frequencies against a tolerance inside the merge"""
    for n in ast.walk(fn):
        if isinstance(n, ast.Compare) and any(isinstance(x, ast.Call) and ast.unparse(x.func).split('.')[-1] in ('abs', 'isclose') for x in ast.walk(n)):
            return True
        if isinstance(n, ast.Call) and ast.unparse(n.func).split('.')[-1] in ('isclose', 'round'):
            return True
    return False


def tolerance(rep, prog):
    # belief 1: the translators compare frequencies with a tolerance (gate sites, confirmed by R02.gate / R07.gate)
    kinds = T.component_kinds(prog); tr = T.translators(prog)
    gate_sites = 0
    for kind, ent in tr.items():
        if ent is None: continue
        ev, term = T.eval_translator(prog, ent[0], ent[1])
        from ..terms import hoist
        term = hoist(term)
        if isinstance(term, Cond) and 'wres' in repr(tkey(term.g)): gate_sites += 1
    rep.count('tolerance_gate_sites', gate_sites)
    f = prog.func(CC, 'frequency_components')
    exact = [n for n in ast.walk(f.node) if isinstance(n, ast.Call) and ast.unparse(n.func).split('.')[-1] in ('set', 'unique', 'fromkeys', 'frozenset')]
    if gate_sites < 4:
        rep.ob('R09.tolerance', 'frequency_components:dedupe', None, f'only {gate_sites} tolerance gates found: the repository convention cannot be established', f.site); return
    if exact and not _tolerant_merge(f.node):
        rep.ob('R09.tolerance', 'frequency_components:dedupe', False,
               f'{gate_sites} translators compare frequencies within w_resolution, but frequency_components removes duplicates by exact float hashing ({ast.unparse(exact[0].func)}(...)): '
               f'an ac source at 0.3 and a rectangle with w0=0.1 yield both 0.3 and 0.30000000000000004, each line then contains both sources', f.site)
    else:
        rep.ob('R09.tolerance', 'frequency_components:dedupe', True, 'duplicates are merged within a tolerance', f.site)


def time_domain(rep, prog):
    m, cls = class_of(prog, CS, 'TimeDomainSolution')
    ev = init_self(prog, new_ev(prog, OPAQUE_CIRCUIT, real_atoms={'t'}), m, cls)
    site = prog.site(m, cls)
    w = ev.stores.get(('self', 'w'))
    wspec = spec(ev, "frequency_components(self.circuit, self.w_max)", {'self': A('self'), 'frequency_components': ev.ref_of(prog.resolve(prog.mod(CC), 'frequency_components'))}, m)
    rep.ob('R09.time', 'frequencies', True if term_equal(w, wspec) else (None if w is None or has_opaque(w) else False), f'self.w = {w!r:.120}', site)
    sols = ev.stores.get(('self', '_solutions'))
    # solutions[k] = solver(transform_circuit(circuit, w[k], ...)) in the order of self.w (map fusion makes the intermediate lists irrelevant)
    ok = None
    if sols is not None and w is not None:
        sp_ = spec(ev, "[self.solver(n_) for n_ in [transform_circuit(self.circuit, v_, 1e-3) for v_ in W]]",
                   {'self': A('self'), 'W': w, 'transform_circuit': ev.ref_of(prog.resolve(prog.mod(CC), 'transform_circuit'))}, m)
        ok = True if term_equal(sols, sp_) else (None if has_opaque(sols) or not isinstance(sols, Comp) else False)
    rep.ob('R09.time', 'solutions-in-frequency-order', ok if ok is not None else (None), f'_solutions = {sols!r:.260}', site)
    for q in ('voltage', 'current', 'potential'):
        t, st = method_term(prog, ev, m, cls, f'get_{q}', [A('id')])
        val = ev.apply(t, [A('t')], {}, m, 1) if _is_callable_term(t) else None
        okf = None
        why = ''
        # any filter on the way from the spectral lines to the sum drops lines (a tolerance test such as isclose(X, 0) loses small signals)
        def filters_in(c_):
            out = []
            if isinstance(c_, Comp):
                for it_, fs_ in c_.gens:
                    out += list(fs_); out += filters_in(it_)
                    if isinstance(it_, Opq) and it_.k and it_.k[0] == 'zip':
                        for z_ in it_.k[1:]: out += filters_in(z_)
            return out
        flt = filters_in(val.k[1]) if isinstance(val, Opq) and val.k and val.k[0] == 'Σ' else []
        if flt and not any(has_opaque(x) for x in flt):
            exact = all(isinstance(x, Opq) and x.k[0] == 'cmp' and x.k[1] in ('NotEq', 'Gt') and 'isclose' not in repr(x) for x in flt)
            okf = None if exact else False
            why = f' -- spectral lines are filtered by {flt[0]!r:.120}: lines that fail the test are missing from the sum'
        elif val is not None and w is not None:
            # normal form: one sum over the frequency list, each term |X_k| cos(w_k t + arg X_k) with X_k the quantity of the solution of
            # the network transformed at w_k (maps over the same list and their zip are fused)
            src = (f"sum([abs(s_.get_{q}(id))*cos(w_*t + angle(s_.get_{q}(id))) for s_, w_ in "
                   "zip([self.solver(n_) for n_ in [transform_circuit(self.circuit, v_, 1e-3) for v_ in W]], W)])")
            sp = spec(ev, src, {'self': A('self'), 'id': A('id'), 't': A('t'), 'W': w,
                                'transform_circuit': ev.ref_of(prog.resolve(prog.mod(CC), 'transform_circuit'))}, m)
            core = lambda x: Comp(x.k[1].elt, x.k[1].gens, 'list') if isinstance(x, Opq) and x.k and x.k[0] == 'Σ' and isinstance(x.k[1], Comp) else x
            okf = True if term_equal(core(val), core(sp)) else (None if has_opaque(val) else False)
        rep.ob('R09.time', f'get_{q}', okf, f'{q}(t) = {val!r:.300}{why}', st, lhs=val)


def peak_and_types(rep, prog):
    m, cls = class_of(prog, CS, 'FrequencyDomainSolution')
    mem = prog.find_member(m, cls, '__post_init__')
    site = prog.site(mem[0], mem[1])
    ev = new_ev(prog, OPAQUE_CIRCUIT); ev.opaque_classes |= {'ComplexSolution'}
    ev.assign  # noqa
    # the one-sided spectrum: evaluate the initialiser with self.one_sided fixed to True (however the two-sided branch is attached)
    ev.stores[('self', 'one_sided')] = True
    ev.self_class = (m, cls)
    ev.call_fn(mem[1], mem[0], [A('self')], {}, {'__parent__': None}, 1)
    sols = ev.stores.get(('self', '_solutions'))
    ok = None
    if isinstance(sols, Comp) and len(sols.gens) == 1:
        at = sols.elt.as_atom() if isinstance(sols.elt, Poly) else None
        wk = ev.elem_of(sols.gens[0][0], 0)
        if at and at[0] == 'call' and at[1] == ('cls', 'ComplexSolution'):
            kw = dict(at[3])
            ok = (kw.get('circuit') == tkey(ev.getattr(A('self'), 'circuit', m, 0)) and kw.get('w') == tkey(wk) and kw.get('peak_values') is True
                  and kw.get('solver') == tkey(ev.getattr(A('self'), 'solver', m, 0)) and term_equal(sols.gens[0][0], ev.stores.get(('self', 'w'))))
    rep.ob('R09.peak', 'FrequencyDomainSolution', ok, f'_solutions = {sols!r:.260}', site)
    wv = ev.stores.get(('self', 'w'))
    wspec = spec(ev, "frequency_components(self.circuit, self.w_max)", {'self': A('self'), 'frequency_components': ev.ref_of(prog.resolve(prog.mod(CC), 'frequency_components'))}, m)
    rep.ob('R09.peak', 'frequencies', True if term_equal(wv, wspec) else (None if wv is None or has_opaque(wv) else False), f'self.w = {wv!r:.120}', site)
    # ---- types: arithmetic on an array of solution objects
    cs_m, cs_cls = class_of(prog, CS, 'ComplexSolution')
    has_arith = any(prog.find_member(cs_m, cs_cls, nm) for nm in ('__mul__', '__rmul__', '__array_ufunc__'))
    has_conj = bool(prog.find_member(cs_m, cs_cls, 'conjugate') or prog.find_member(cs_m, cs_cls, '__array_ufunc__'))
    bad = []
    for n in ast.walk(mem[1]):
        if isinstance(n, ast.Assign) and any(ast.unparse(t) == 'self._solutions' for t in n.targets):
            for x in ast.walk(n.value):
                if isinstance(x, ast.BinOp) and isinstance(x.op, (ast.Mult, ast.Div, ast.Add, ast.Sub)) and 'self._solutions' in ast.unparse(x) and not has_arith:
                    bad.append((x, 'arithmetic operator'))
                if isinstance(x, ast.Call) and ast.unparse(x.func).split('.')[-1] in ('conj', 'conjugate') and 'self._solutions' in ast.unparse(x) and not has_conj:
                    bad.append((x, 'conjugation'))
    objects = isinstance(sols, Comp) and isinstance(sols.elt, Poly) and (sols.elt.as_atom() or ('',))[0] == 'call' and (sols.elt.as_atom() or ('', ('', '')))[1][0] == 'cls'
    if bad and objects:
        x, what = bad[0]
        rep.ob('R09.types', 'FrequencyDomainSolution:two-sided', False,
               f'{what} applied to the array of ComplexSolution objects (`{ast.unparse(x)[:70]}`); ComplexSolution defines no __mul__/__rmul__/conjugate: '
               f'FrequencyDomainSolution(one_sided=False) raises TypeError', prog.site(m, x))
    else:
        rep.ob('R09.types', 'FrequencyDomainSolution:two-sided', True, 'no arithmetic on arrays of solution objects', site)


def harmonic(rep, prog):
    tr = T.translators(prog); kinds = T.component_kinds(prog)
    for kind in ('periodic_voltage_source', 'periodic_current_source'):
        ent = tr.get(kind)
        if ent is None:
            rep.ob('R09.harmonic', kind, None, 'translator missing'); continue
        T.check_kind(rep, prog, kind, ent[0], ent[1], kinds.get(kind, {}).get('written', {}), rules=('phasor', 'gate'), pid_rule='R09.harmonic')
