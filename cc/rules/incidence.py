"""Incidence tables read off E1 array-build terms.

A matrix assembled by stores  M[..] (+)= v  inside loops is a term  build(init, stores...)  whose bound variables are canonical.  The
table of an incidence matrix is obtained by CASE ANALYSIS on the stores, independent of how the loops are written (product of both
label sets with a comparison, one pass over the elements with both terminals, unrolled terminal tuples, helper functions ...):

  for the element e with terminals (n1, n2), n1 != n2, and a node label L:
     case node1:  L == n1            -> the stored value must be a constant  s1
     case node2:  L == n2            -> the stored value must be a constant  s2
     case other:  L != n1, L != n2   -> nothing / zero is stored
     reference:   a store whose node label IS the terminal expression needs a guard that is false when that terminal is the
                  reference node (the node map has no entry for it)
"""
from __future__ import annotations
import ast
from ..terms import Evaluator, Opq, Poly, Cond, tkey, as_poly, same
from ..api import A

NA = 'Network.NodalAnalysis.node_analysis'
SS = 'Network.NodalAnalysis.state_space_model'
LM = 'Network.NodalAnalysis.label_mapping'
NW = 'Network.network'


def term_from_key(k):
    if isinstance(k, tuple) and k[:1] == ('poly',):
        return Poly({mono: c for mono, c in k[1:]})
    if isinstance(k, (str, int)): return k
    return None


def index_parts(idx):
    """[('map', base key, label term) | ('enum', iter key, label term) | ('raw', term)] of one index term"""
    p = idx if isinstance(idx, Poly) else None
    at = p.as_atom() if p is not None else None
    if isinstance(at, tuple) and at:
        if at[0] == '[]' and isinstance(at[1], tuple) and at[1][:1] == ('call',) and len(at[1]) == 4 and not at[1][3] and isinstance(at[2], int) \
                and not isinstance(at[2], bool) and 0 <= at[2] < len(at[1][2]) and len(at[1][2]) > 1:
            # one component of mapper(label_0, label_1, ...): the index of that label
            lab = term_from_key(at[1][2][at[2]])
            if lab is not None: return [('map', at[1][1], lab)]
        if at[0] == '[]':
            lab = term_from_key(at[2])
            if lab is not None: return [('map', at[1], lab)]
        if at[0] == 'call' and len(at) == 4 and not at[3] and at[2]:
            labs = [term_from_key(a) for a in at[2]]
            if all(l is not None for l in labs): return [('map', at[1], l) for l in labs]
        if at[0] == 'valof' and len(at) == 3:
            # the position half of an item of X.mapping.items(): the index of the label half
            mt = term_from_key(at[2]); ma = mt.as_atom() if isinstance(mt, Poly) else None
            if isinstance(ma, tuple) and len(ma) == 3 and ma[0] == '.' and ma[2] == 'mapping':
                return [('map', ma[1], Poly.atom(('keyof', at[1], at[2])))]
        if at[0] == 'β' and len(at) == 3:
            # zip(X.keys, X.values): the position that travels with the label of the same pass
            mt = term_from_key(at[2]); ma = mt.as_atom() if isinstance(mt, Poly) else None
            if isinstance(ma, tuple) and len(ma) == 3 and ma[0] == '.' and ma[2] == 'values':
                return [('map', ma[1], Poly.atom(('β', at[1], tkey(Poly.atom(('.', ma[1], 'keys'))))))]
        if at[0] == 'idx':
            return [('enum', (at[1], at[2]), Poly.atom(('β', at[1], at[2])))]
    return [('raw', idx)]


def records(bt):
    """[(gens, guard, [index parts...], value, aug)] of a build term"""
    out = []
    for r in bt.k[2]:
        gens, guard, idx, val, aug = r.k[1], r.k[2], r.k[3], r.k[4], r.k[5]
        parts = []
        for i in idx: parts += index_parts(i)
        out.append((gens, guard, parts, val, aug))
    return out


def refold_value(ev, v):
    if isinstance(v, Cond):
        g = ev.refold(v.g) if isinstance(v.g, Opq) else v.g
        if g is True: return refold_value(ev, v.a)
        if g is False: return refold_value(ev, v.b)
        return Cond(g, refold_value(ev, v.a), refold_value(ev, v.b))
    return v


def typed_network_evaluator(prog, extra_opaque=()):
    """evaluator in which `network` is an atom whose is_zero_node is inlined, and the label mappers stay symbolic"""
    ev = Evaluator(prog)
    net = prog.mod(NW); cls = net.defs.get('Network')
    if isinstance(cls, ast.ClassDef):
        mem = prog.find_member(net, cls, 'is_zero_node')
        if mem and isinstance(mem[1], ast.FunctionDef): ev.atom_methods[('network', 'is_zero_node')] = (mem[0], mem[1])
        mem = prog.find_member(net, cls, 'branch_ids')
        if mem and isinstance(mem[1], ast.FunctionDef): ev.atom_methods[('network', 'branch_ids')] = (mem[0], mem[1])
    lm = prog.mod(LM)
    for nm, d in lm.defs.items():
        if isinstance(d, ast.FunctionDef) and d.returns is not None and 'LabelMapping' in ast.unparse(d.returns) and nm != 'filter' and not nm.startswith('_'):
            ev.opaque_fns.add((LM, nm))
    for q in extra_opaque: ev.opaque_fns.add(q)
    return ev


def _case_eval(ev0, network, rec, node_i, elem_i, case):
    """contribution of one store record in a case: ('skip',) | ('val', const) | ('undecided', why)"""
    gens, guard, parts, val, aug = rec
    if max(node_i, elem_i) >= len(parts): return ('undecided', 'index arity')
    pn, pe = parts[node_i], parts[elem_i]
    if pn[0] != 'map' or pe[0] not in ('map', 'enum'): return ('undecided', 'index form')
    Ln, Le = pn[2], pe[2]
    ev = ev0.fresh()
    br = ev.getitem(network, Le)
    m = next(iter(ev.prog.modules.values()))
    n1, n2 = ev.getattr(br, 'node1', m, 0), ev.getattr(br, 'node2', m, 0)
    zero = ev.getattr(network, 'node_zero_label', m, 0)
    if not all(isinstance(x, Poly) for x in (n1, n2, zero)) or not isinstance(Ln, Poly): return ('undecided', 'labels')
    ev.add_fact(n1 - n2, '!=0')
    lit1, lit2 = ev.compare(ast.Eq(), Ln, n1), ev.compare(ast.Eq(), Ln, n2)
    if case in ('node1', 'node2'):
        mine, other, lit = (n1, n2, lit1) if case == 'node1' else (n2, n1, lit2)
        if lit is False: return ('skip',)
        if (lit2 if case == 'node1' else lit1) is True: return ('skip',)
        if lit is not True: ev.add_fact(Ln - mine, '==0')
        ev.add_fact(Ln - other, '!=0')
        ev.add_fact(mine - zero, '!=0'); ev.add_fact(Ln - zero, '!=0')
    elif case == 'other':
        if lit1 is True or lit2 is True: return ('skip',)
        ev.add_fact(Ln - n1, '!=0'); ev.add_fact(Ln - n2, '!=0'); ev.add_fact(Ln - zero, '!=0')
    elif case in ('ref1', 'ref2'):
        mine, lit = (n1, lit1) if case == 'ref1' else (n2, lit2)
        if lit is not True: return ('skip',)          # the node label is a loop variable over the map: never the reference
        ev.add_fact(mine - zero, '==0')
    def membership(g_):
        # `label in node_map` / `label in node_map.keys`: the labels of the node map are the nodes other than the reference
        if isinstance(g_, Opq) and g_.k and g_.k[0] in ('and', 'or'): return ev.mkbool(g_.k[0], [membership(x_) for x_ in g_.k[1:]])
        if isinstance(g_, Opq) and len(g_.k) == 2 and g_.k[0] == 'not': return ev.negate(membership(g_.k[1]))
        if isinstance(g_, Opq) and len(g_.k) == 3 and g_.k[0] == 'in' and isinstance(g_.k[1], Poly) and isinstance(g_.k[2], Poly):
            ma = g_.k[2].as_atom()
            if isinstance(ma, tuple) and len(ma) == 3 and ma[0] == '.' and ma[2] in ('keys', 'mapping'): ma = ma[1]
            if ma == pn[1] or tkey(Poly.atom(ma)) == pn[1]: return ev.compare(ast.NotEq(), g_.k[1], zero)
        return g_
    guard = membership(guard)
    g = ev.refold(guard) if isinstance(guard, Opq) else guard
    if isinstance(g, Cond):
        # `if sign:` on a value selected by the same tests: decided in this case like the value itself
        g = refold_value(ev, g)
        if isinstance(g, Cond): g = ev.truth(g)
        c_ = as_poly(g).real_const() if isinstance(g, (Poly, int)) and not isinstance(g, bool) else None
        if c_ is not None: g = c_ != 0
    if g is False: return ('val', 0)
    v = refold_value(ev, val)
    if Evaluator._enum_member(v) and v.f.get('_enum_mixin_') == 'int': v = v.f['_value_']          # an IntEnum member stored into the matrix is its number
    if g is not True: return ('undecided', f'guard {g!r:.80}')
    c = as_poly(v).real_const() if isinstance(v, (Poly, int, bool)) else None
    if c is None: return ('undecided', f'value {v!r:.80}')
    return ('val', c)


def incidence_table(ev, bt, network=None):
    """{'node1': s1, 'node2': s2, 'other': 0, 'ref_guard': bool|None, 'axes': (node axis, element axis)} or {'undecided': why}"""
    network = network if network is not None else A('network')
    recs = records(bt)
    if not recs: return {'undecided': 'no stores'}
    n = max(len(r[2]) for r in recs)
    why = 'no index pair reads a node label and an element label'
    for node_i in range(n):
        for elem_i in range(n):
            if node_i == elem_i: continue
            tab = {}; ok = True
            for case in ('node1', 'node2', 'other'):
                tot = 0; hit = False
                for r in recs:
                    res = _case_eval(ev, network, r, node_i, elem_i, case)
                    if res[0] == 'skip': continue
                    if res[0] == 'undecided': ok = False; why = res[1]; break
                    tot += res[1]; hit = hit or res[1] != 0
                if not ok: break
                tab[case] = tot
            if not ok: continue
            refs = []
            for case in ('ref1', 'ref2'):
                for r in recs:
                    res = _case_eval(ev, network, r, node_i, elem_i, case)
                    if res[0] == 'skip': continue
                    refs.append(res == ('val', 0))
            tab['ref_guard'] = all(refs) if refs else True
            tab['axes'] = (node_i, elem_i)
            return tab
    return {'undecided': why}


def build_of(ev, fn_short_mod, fn_name, prog, args=None):
    """evaluate a matrix builder with symbolic mappers and return (its build term or None, result term, Func)"""
    f = prog.func(fn_short_mod, fn_name)
    from ..prog import params_of
    from ..api import call
    pos = params_of(f.node)[0]
    t = call(ev, f, [A(p) for p in pos] if args is None else args)
    bt = t if isinstance(t, Opq) and t.k and t.k[0] == 'build' else None
    return bt, t, f


def find_builds(ev, pred):
    return [b for b in ev.builds if pred(b)]


def tables(prog):
    """sign tables of B (ideal voltage sources), Q (current sources) and Delta (capacitors in the state-space builder)"""
    out = {}
    for name, fn in (('B', 'voltage_source_incidence_matrix'), ('Q', 'source_incidence_matrix')):
        ev = typed_network_evaluator(prog)
        try:
            bt, t, f = build_of(ev, NA, fn, prog)
        except KeyError:
            out[name] = {'undecided': f'{fn} not found', 'site': ''}; continue
        if bt is None:
            out[name] = {'undecided': f'{fn} does not return an array built by stores: {t!r:.120}', 'site': f.site}; continue
        tab = incidence_table(ev, bt)
        tab['site'] = f.site
        out[name] = tab
    # Delta: the build inside state_space_matrices whose element axis runs over c_values
    ev = typed_network_evaluator(prog, [(NA, 'nodal_analysis_coefficient_matrix'), (NA, 'source_incidence_matrix')])
    try:
        f = prog.func(SS, 'state_space_matrices')
        from ..prog import params_of
        from ..api import call
        call(ev, f, [A(p) for p in params_of(f.node)[0]])
        cands = []
        for b in ev.builds:
            k = repr(tkey(b['term'].k[2]))
            if "'c_values'" in k and "'node1'" in k: cands.append(b)
        if not cands:
            out['Delta'] = {'undecided': 'no array built from c_values and branch terminals in state_space_matrices', 'site': f.site}
        else:
            tab = incidence_table(ev, cands[-1]['term'])
            tab['site'] = f"{cands[-1]['mod'].rel}:{cands[-1]['line']}"
            out['Delta'] = tab
    except KeyError:
        out['Delta'] = {'undecided': 'state_space_matrices not found', 'site': ''}
    return out


def admittance_table(prog):
    """{'diag': (coefficient, function, args), 'off': ..., 'network': term handed to the admittance sums, 'spec_network': term, 'site'} of
    node_admittance_matrix, by case analysis row label == / != column label on its build term"""
    EL = 'Network.elements'
    ev = typed_network_evaluator(prog, [(NA, 'admittance_connected_to'), (NA, 'admittance_between'), (EL, 'is_ideal_voltage_source')])
    try:
        bt, t, f = build_of(ev, NA, 'node_admittance_matrix', prog)
    except KeyError:
        return {'undecided': 'node_admittance_matrix not found', 'site': ''}
    if bt is None: return {'undecided': f'node_admittance_matrix does not return an array built by stores: {t!r:.120}', 'site': f.site}
    out = {'site': f.site}
    for case in ('diag', 'off'):
        tot = Poly()
        combo = []          # values stored at (l1, l2) and (l2, l1) for each UNORDERED pair of a combinations() generator
        for gens, guard, parts, val, aug in records(bt):
            if len(parts) != 2 or any(p[0] != 'map' for p in parts): return {'undecided': 'index form', 'site': f.site}
            Lr, Lc = parts[0][2], parts[1][2]
            if not isinstance(Lr, Poly) or not isinstance(Lc, Poly): return {'undecided': 'labels', 'site': f.site}
            if same(Lr, Lc):
                if case == 'off': continue          # a store at (l, l): contributes to the diagonal only
            elif case == 'diag' and any(isinstance(g_, Opq) and len(g_.k) == 2 and g_.k[0] == 'permutations' for g_ in gens) \
                    and all(isinstance(L_.as_atom(), tuple) and L_.as_atom()[:1] == ('β',) for L_ in (Lr, Lc)):
                continue                            # pairs of a permutations() generator sit at different positions: never on the diagonal (labels are unique)
            elif any(isinstance(g_, Opq) and len(g_.k) == 2 and g_.k[0] == 'combinations' for g_ in gens) \
                    and all(isinstance(L_.as_atom(), tuple) and L_.as_atom()[:1] == ('β',) for L_ in (Lr, Lc)):
                if case == 'diag': continue         # likewise never on the diagonal
                if guard is not True or not isinstance(val, Poly): return {'undecided': 'guarded store in a combinations loop', 'site': f.site}
                combo.append((Lr, Lc, val)); out[case + ':labels'] = (Lr, Lc)
                continue
            e2 = ev.fresh()
            e2.add_fact(Lr - Lc, '==0' if case == 'diag' else '!=0')
            g = e2.refold(guard) if isinstance(guard, Opq) else guard
            if g is False: continue
            if g is not True: return {'undecided': f'guard {g!r:.80}', 'site': f.site}
            v = refold_value(e2, val)
            if not isinstance(v, (Poly, int)): return {'undecided': f'value {v!r:.80}', 'site': f.site}
            tot = tot + as_poly(v)
            out[case + ':labels'] = (Lr, Lc)
        if combo:
            # every unordered pair is visited once and must fill BOTH (l1, l2) and (l2, l1) with one and the same value: the entry at (row, column)
            # is that value (symmetric in the two labels or not is then decided by the caller on its arguments)
            pos = {(repr(tkey(a_)), repr(tkey(b_))) for a_, b_, _ in combo}
            l1_, l2_ = combo[0][0], combo[0][1]
            if len(combo) != 2 or pos != {(repr(tkey(l1_)), repr(tkey(l2_))), (repr(tkey(l2_)), repr(tkey(l1_)))} or not same(combo[0][2], combo[1][2]):
                return {'undecided': 'a combinations loop that does not mirror each pair', 'site': f.site}
            tot = tot + combo[0][2]
        sg = tot.single()
        if sg is None or len(sg[0]) != 1 or sg[0][0][1] != 1: return {'undecided': f'{case} entry {tot!r:.120}', 'site': f.site}
        at = sg[0][0][0]
        if not (isinstance(at, tuple) and at[0] == 'call' and isinstance(at[1], tuple) and at[1][0] == 'fn'): return {'undecided': f'{case} entry {tot!r:.120}', 'site': f.site}
        out[case] = (sg[1][0] if sg[1][1] == 0 else None, at[1][1], at[2], at[3])
    # the network the sums run over
    m = prog.mod(NA)
    e3 = ev.fresh()
    env = {'__parent__': None, 'network': A('network'), 'Network': ev.ref_of(prog.resolve(prog.mod(NW), 'Network')),
           'is_ideal_voltage_source': ev.ref_of(prog.resolve(prog.mod(EL), 'is_ideal_voltage_source'))}
    out['spec_network'] = e3.ev(ast.parse("Network(branches=[b for b in network.branches if not is_ideal_voltage_source(b.element)], node_zero_label=network.node_zero_label)", mode='eval').body, env, m, 0)
    return out


def _signed_atom(p):
    """(sign, atom) of a polynomial that is ±1 times one atom, else None"""
    if not isinstance(p, Poly): return None
    sg = p.single()
    if sg is None or len(sg[0]) != 1 or sg[0][0][1] != 1 or sg[1][1] != 0 or abs(sg[1][0]) != 1: return None
    return int(sg[1][0]), sg[0][0][0]


def _source_value_comp(t, attr):
    """sign s if t is the list [s * network[label].element.<attr> for label in <labels>] (one generator), else None"""
    from ..terms import Comp
    if not isinstance(t, Comp) or len(t.gens) != 1: return None
    sa = _signed_atom(t.elt) if isinstance(t.elt, Poly) else None
    if sa is None: return None
    s_, at = sa
    ok = isinstance(at, tuple) and at[:1] == ('.',) and at[2] == attr and isinstance(at[1], tuple) and at[1][:1] == ('.',) and at[1][2] == 'element' \
        and isinstance(at[1][1], tuple) and at[1][1][:2] == ('[]', 'network')
    return s_ if ok else None


def rhs_signs(prog):
    """signs with which the source values enter the right-hand side: {'I': sign of element.I in the current-source vector, 'QI': sign of Q@Is,
    'V': sign of element.V in the voltage block, 'order': 'I|V' when the current block comes first, 'V_labels': term of the label list of the V block}"""
    out = {'I': None, 'QI': None, 'V': None, 'order': None, 'detail': []}
    from ..api import call
    from ..prog import params_of
    def run(fn, opaque):
        ev = typed_network_evaluator(prog, opaque)
        f = prog.func(NA, fn)
        return ev, f, call(ev, f, [A(p) for p in params_of(f.node)[0]])
    try:
        ev, f, t = run('current_source_vector', [])
        out['I'] = _source_value_comp(t, 'I'); out['I_term'] = t; out['site_I'] = f.site
        ev, f, t = run('current_source_incidence_vector', [(NA, 'source_incidence_matrix'), (NA, 'current_source_vector')])
        sa = _signed_atom(t) if isinstance(t, Poly) else None
        if sa is not None and isinstance(sa[1], tuple) and sa[1][0] == 'matmul':
            q, i_ = repr(sa[1][1]), repr(sa[1][2])
            if "'source_incidence_matrix'" in q and "'current_source_vector'" in i_:
                out['QI'] = sa[0]
                # a scalar sign may also sit on either factor
                for fac in (sa[1][1], sa[1][2]):
                    p = term_from_key(fac)
                    s2 = _signed_atom(p) if isinstance(p, Poly) else None
                    if s2 is None: out['QI'] = None
                    else: out['QI'] = out['QI'] * s2[0] if out['QI'] is not None else None
        out['QI_term'] = t
        ev, f, t = run('nodal_analysis_constants_vector', [(NA, 'current_source_incidence_vector')])
        out['site'] = f.site; out['rhs_term'] = t
        if isinstance(t, Opq) and t.k and t.k[0] in ('hcat', 'vcat') and len(t.k) == 3:
            first, second = t.k[1], t.k[2]
            sa = _signed_atom(first) if isinstance(first, Poly) else None
            if sa is not None and "'current_source_incidence_vector'" in repr(sa[1]):
                out['order'] = 'I|V'
                if out['QI'] is not None: out['QI'] *= sa[0]
                out['V'] = _source_value_comp(second, 'V')
                out['V_term'] = second
    except KeyError as e:
        out['detail'].append(f'not found: {e}')
    return out
