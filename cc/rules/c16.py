"""C16 -- network simplifications are electrical identities (structure of the rewrites; purity)."""
from __future__ import annotations
from ..report import AnalysisError
from . import netxf
from .c20 import effects_of


def run(rep, prog, tier):
    from .hidden import no_hidden_state
    rep.rule('R16.state', 'no hidden state in the anchored modules: no function writes a module-level object, no caching decorator / cached property')
    no_hidden_state(rep, 'R16.state', prog, ['Network/transformers.py', 'Network/network.py'])
    rep.rule('R16.pure', 'no function of Network/transformers.py writes through its network / keep parameter (effect analysis)')
    rep.rule('R16.thread', 'every transformer returns Network(..., node_zero_label=<input label>) (switch_ground_node: the new label)')
    rep.rule('R16.keep', 'exemption list forwarded to every inner call that accepts it')
    rep.rule('R16.filter', 'open removal keeps exactly the non-open branches; remove_element removes exactly network[element]; re-referencing keeps the branch list')
    rep.rule('R16.rename', 'short contraction rewrites each branch terminal-wise (absorbed -> retained, element kept), drops exactly the self-loops, never absorbs the reference node')
    eff = effects_of(prog)
    n = 0
    for q, f in sorted(prog.funcs.items()):
        if not q.startswith(netxf.NT + '::') or f.parent is not None: continue
        n += 1
        sm = eff.summ[q]
        if getattr(f.node, 'name', '').startswith('_') and not getattr(f.node, 'name', '').startswith('__'):
            # a private helper may work on an object its caller made for it: what it does to a caller's argument is charged to the public caller
            rep.ob('R16.pure', q, True, 'private helper (its effects are accounted for in the summaries of its public callers)', f.site); continue
        if sm.mut:
            for p, s in sorted(sm.mut.items()):
                rep.ob('R16.pure', f'{q}({p})', False, f'writes to the object passed as `{p}`: {s}', f.site)
        else:
            rep.ob('R16.pure', q, True, 'input network and exemption list are never written', f.site)
    if n < 8:
        raise AnalysisError(f'only {n} functions in {netxf.NT}')
    netxf.rule_thread(rep, prog)
    netxf.rule_keep(rep, prog, 'R16.keep')
    netxf.rule_filters(rep, prog)
    netxf.rule_rename(rep, prog)
