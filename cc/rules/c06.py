"""C06 -- port behaviour: driving-point impedance and Thevenin / Norton equivalents (structure of the computation)."""
from __future__ import annotations
import ast
from ..api import A, spec, call
from ..terms import Evaluator, Poly, Rec, Cond, Opq, Comp, tkey, paths_of, term_equal, has_opaque, compare_terms, as_poly
from ..paths import paths
from ..report import AnalysisError
from . import spacerules as SR
from .solutions import new_ev

NA = SR.NA
DEACTIVATORS = {'remove_ideal_voltage_sources', 'passive_network', 'short_circuitify_voltage_sources'}


def run(rep, prog, tier):
    from .hidden import no_hidden_state
    rep.rule('R06.state', 'no hidden state in the anchored modules: no function writes a module-level object, no caching decorator / cached property')
    no_hidden_state(rep, 'R06.state', prog, ['Network/NodalAnalysis/node_analysis.py', 'Network/NodalAnalysis/bias_point_analysis.py', 'Network/equivalent_sources.py', 'Network/transformers.py', 'Circuit/impedance.py'])
    rep.rule('R06.space', 'the inverted matrix, the re-referenced network and the looked-up node index derive from the same binding; after pruning rows/columns the node is located in the pruned layout (index-space typing)')
    rep.rule('R06.typestate', 'the matrix whose inverse is read as the port impedance has its ideal voltage sources shorted: the full MNA coefficient matrix, or a nodal matrix of a network that went through the voltage-source deactivation')
    rep.rule('R06.shape', 'identical nodes and nodes across an ideal voltage source return 0 before any matrix work; the pair is swapped when the first node is the reference; element_impedance removes the element and passes its own terminals')
    rep.rule('R06.formulas', 'short_circuit_current = Voc / Z; Thevenin U = Voc, Z = Zoc; Norton I = U / Z, Y = 1 / Z; DC wrappers take the real part of the w = 0 sweep')
    rep.rule('R0.import', 'every intra-package import of the port modules binds')
    rep.assume('NOT DECIDED: symmetry, series/parallel laws, load-line equivalence for actual values; singular cases')
    interps = SR.analyse(prog)
    n = SR.emit(rep, 'R06.space', interps, ['port'])
    if n < 8: rep.error(f'only {n} index-space obligations in open_circuit_impedance')
    typestate(rep, prog)
    shape(rep, prog)
    formulas(rep, prog)
    imports(rep, prog)


def typestate_terms(rep, prog):
    """the same typestate on the evaluated result: every inv(...) in the value of open_circuit_impedance is taken of the coefficient matrix, or
    of a nodal matrix of a network that went through a deactivation (used when the inversion is not written in the function itself)"""
    f = prog.func(NA, 'open_circuit_impedance')
    ev = new_ev(prog)
    ev.opaque_fns |= {(NA, 'nodal_analysis_coefficient_matrix'), (NA, 'node_admittance_matrix'), ('Network.transformers', 'switch_ground_node'),
                      ('Network.elements', 'is_ideal_voltage_source'), ('Network.NodalAnalysis.label_mapping', 'alphabetic_node_mapper')}
    for nm in DEACTIVATORS: ev.opaque_fns.add(('Network.transformers', nm))
    t = call(ev, f, [A('network'), A('n1'), A('n2')])
    invs = _find(tkey(t), lambda k: len(k) == 2 and k[0] in ('inv', 'pinv') and isinstance(k[1], tuple))
    if not invs:
        rep.ob('R06.typestate', 'open_circuit_impedance', None, 'no matrix inversion found', f.site); return
    is_call = lambda nm: (lambda k: len(k) >= 3 and k[0] == 'call' and k[1] == ('fn', nm))
    verdicts = []
    for iv in invs:
        full = _find(iv[1], is_call('nodal_analysis_coefficient_matrix'))
        nodal = _find(iv[1], is_call('node_admittance_matrix'))
        if full and not nodal: verdicts.append(True)
        elif nodal and not full:
            verdicts.append(all(any(_find(c, is_call(d)) for d in DEACTIVATORS) for c in nodal))
        else: verdicts.append(None)
    if all(v is True for v in verdicts):
        rep.ob('R06.typestate', 'open_circuit_impedance', True, 'every inverted matrix is the full MNA coefficient matrix or a nodal matrix of a source-deactivated network', f.site)
    elif any(v is False for v in verdicts):
        rep.ob('R06.typestate', 'open_circuit_impedance', False, 'inverts node_admittance_matrix of a network whose ideal voltage sources were never shorted '
               '(node_admittance_matrix leaves them OUT, so the impedance is that of the circuit with the sources removed)', f.site)
    else:
        rep.ob('R06.typestate', 'open_circuit_impedance', None, 'origin of an inverted matrix not found', f.site)


def typestate(rep, prog):
    f = prog.func(NA, 'open_circuit_impedance')
    inv_calls = [n for n in ast.walk(f.node) if isinstance(n, ast.Call) and ast.unparse(n.func).split('.')[-1] in ('inv', 'solve', 'pinv')]
    if not inv_calls: return typestate_terms(rep, prog)
    # def-use chain backwards from the argument of inv(...)
    assigns = {}
    for st in ast.walk(f.node):
        if isinstance(st, ast.Assign) and len(st.targets) == 1 and isinstance(st.targets[0], ast.Name):
            assigns.setdefault(st.targets[0].id, []).append(st)
    inv_calls = [n for n in ast.walk(f.node) if isinstance(n, ast.Call) and ast.unparse(n.func).split('.')[-1] in ('inv', 'solve', 'pinv')]
    if not inv_calls:
        rep.ob('R06.typestate', 'open_circuit_impedance', None, 'no matrix inversion found', f.site); return
    def origin(e, before, depth=0):
        """calls that produce the matrix value of expression e (following local re-assignments upwards)"""
        if depth > 12: return []
        if isinstance(e, ast.Call):
            fn = ast.unparse(e.func).split('.')[-1]
            if fn in ('delete', 'array', 'asarray', 'real', 'copy') and e.args: return origin(e.args[0], before, depth + 1)
            return [e]
        if isinstance(e, ast.Subscript): return origin(e.value, before, depth + 1)
        if isinstance(e, ast.Attribute) and e.attr in ('real', 'T'): return origin(e.value, before, depth + 1)
        if isinstance(e, ast.Name):
            cands = [st for st in assigns.get(e.id, []) if st.lineno < before]
            if not cands: return []
            st = max(cands, key=lambda s: s.lineno)
            return origin(st.value, st.lineno, depth + 1)
        return []
    for ic in inv_calls:
        src = origin(ic.args[0], ic.lineno + 1)
        if not src:
            return typestate_terms(rep, prog)          # not followed through the syntax: read the provenance off the evaluated result
        c = src[0]
        fn = ast.unparse(c.func).split('.')[-1]
        if fn == 'nodal_analysis_coefficient_matrix':
            rep.ob('R06.typestate', 'open_circuit_impedance', True, 'inverts the full MNA coefficient matrix: ideal voltage sources are constraint rows (shorted), current sources do not enter', f.site)
        elif fn == 'node_admittance_matrix':
            # acceptable only if its network argument went through a voltage-source deactivation
            netarg = c.args[0] if c.args else next((k.value for k in c.keywords if k.arg == 'network'), None)
            srcs = origin(netarg, c.lineno + 1) if netarg is not None else []
            chain = ' <- '.join(ast.unparse(s.func).split('.')[-1] for s in srcs)
            def deactivated(e, before, depth=0):
                for s in origin(e, before):
                    nm = ast.unparse(s.func).split('.')[-1]
                    if nm in DEACTIVATORS: return True
                    inner = s.args[0] if s.args else next((k.value for k in s.keywords if k.arg == 'network'), None)
                    if inner is not None and depth < 6 and deactivated(inner, s.lineno + 1, depth + 1): return True
                return False
            ok = netarg is not None and deactivated(netarg, c.lineno + 1)
            rep.ob('R06.typestate', 'open_circuit_impedance', bool(ok),
                   'nodal admittance matrix of a source-deactivated network' if ok else
                   'inverts node_admittance_matrix(network) of a network whose ideal voltage sources were never shorted: node_admittance_matrix leaves them OUT (open), '
                   'so the impedance is that of the circuit with the sources removed, e.g. V(1,0), R1(1,2)=2, R2(2,0)=3 gives Z(2,0)=3 instead of 1.2', f.site)
        else:
            return typestate_terms(rep, prog)          # the matrix passes through a call the syntactic rule does not know: decide on the evaluated result


def _find(k, pred, out=None):
    out = [] if out is None else out
    if isinstance(k, tuple):
        if pred(k): out.append(k)
        for x in k: _find(x, pred, out)
    return out


def shape(rep, prog):
    f = prog.func(NA, 'open_circuit_impedance')
    ev = new_ev(prog)
    ev.opaque_fns |= {(NA, 'nodal_analysis_coefficient_matrix'), (NA, 'node_admittance_matrix'), ('Network.transformers', 'switch_ground_node'),
                      ('Network.elements', 'is_ideal_voltage_source'), ('Network.NodalAnalysis.label_mapping', 'alphabetic_node_mapper')}
    for nm in ('remove_ideal_voltage_sources', 'passive_network', 'short_circuitify_voltage_sources'): ev.opaque_fns.add(('Network.transformers', nm))
    t = call(ev, f, [A('network'), A('n1'), A('n2')])
    paths = paths_of(t)
    env = {'network': A('network'), 'n1': A('n1'), 'n2': A('n2'), 'is_ideal_voltage_source': ev.ref_of(prog.resolve(prog.mod('Network.elements'), 'is_ideal_voltage_source'))}
    g_same = repr(tkey(ev.fresh().truth(spec(ev, "n1 == n2", env, f.mod))))
    g_vs = repr(tkey(ev.fresh().truth(spec(ev, "any([is_ideal_voltage_source(b.element) for b in network.branches_between(n1, n2)])", env, f.mod))))
    def zero(l): return isinstance(l, (int, Poly)) and not isinstance(l, bool) and as_poly(l).is_zero()
    # evaluated again under each hypothesis: every path must then yield 0 (however the two tests are combined or ordered)
    def under(seed):
        e2 = new_ev(prog); e2.opaque_fns = set(ev.opaque_fns); seed(e2)
        t2 = call(e2, f, [A('network'), A('n1'), A('n2')])
        lv = [l for _, l in paths_of(t2)]
        if all(zero(l) for l in lv): return True, t2
        return (None if any("'?'" in repr(tkey(l)) for l in lv if not zero(l)) else False), t2
    same_nodes, t_s = under(lambda e2: e2.add_fact(A('n1') - A('n2'), '==0'))
    g_vs_term = ev.fresh().truth(spec(ev, "any([is_ideal_voltage_source(b.element) for b in network.branches_between(n1, n2)])", env, f.mod))
    across_vs, t_v = under(lambda e2: e2.assumed.append((g_vs_term, True)))
    if across_vs is None and repr(tkey(g_vs_term)) not in repr(tkey(t)):
        across_vs = False        # the result does not depend on that test at all
    rep.ob('R06.shape', 'identical-nodes', same_nodes, 'n1 == n2 yields 0 on every path' if same_nodes else f'with n1 == n2 the result is {t_s!r:.200}', f.site)
    rep.ob('R06.shape', 'across-ideal-voltage-source', across_vs, 'an ideal voltage source between the nodes yields 0 on every path' if across_vs else f'with an ideal voltage source between the nodes the result is {t_v!r:.200}', f.site)
    # re-referencing and the node that is looked up: evaluate once under each answer of `network.is_zero_node(n1)`
    zn = ev.fresh().call_method(A('network'), 'is_zero_node', [A('n1')], {}, f.mod, 0)
    is_lookup = lambda x: len(x) == 3 and x[0] == '[]' and isinstance(x[1], tuple) and len(x[1]) >= 3 and x[1][0] == 'call' and x[1][1] == ('fn', 'alphabetic_node_mapper')
    is_sg = lambda x: len(x) >= 4 and x[0] == 'call' and x[1] == ('fn', 'switch_ground_node')
    okr = okl = True; n_sg = n_look = 0
    for first_is_reference, rel, ground, node in ((False, '==0', 'n2', 'n1'), (True, '!=0', 'n1', 'n2')):
        if isinstance(zn, Opq) and zn.k and zn.k[0] == 'cmp' and zn.k[1] == 'Eq' and isinstance(zn.k[2], Poly):
            # the reference test is unfolded to `n1 == zero`: state the hypothesis on that difference
            e2 = new_ev(prog, facts=[(zn.k[2], '==0' if rel == '!=0' else '!=0')])
        else:
            e2 = new_ev(prog, facts=[(zn, rel)])
        e2.opaque_fns = set(ev.opaque_fns)
        t2 = call(e2, f, [A('network'), A('n1'), A('n2')])
        k2 = tkey(t2)
        for c_ in _find(k2, is_sg):
            n_sg += 1
            if dict(c_[3]).get('new_ground', c_[2][1] if len(c_[2]) > 1 else None) != tkey(A(ground)): okr = False
        for x in _find(k2, is_lookup):
            n_look += 1
            if x[2] != tkey(A(node)): okl = False
    rep.ob('R06.shape', 're-reference-to-second-node', okr if n_sg else None, 'network re-referenced to the second node (kept when the first node is the reference)', f.site)
    rep.ob('R06.shape', 'swap-if-reference', okl if n_look else None, 'the node whose row is read is the one that is not the reference of the re-referenced network', f.site)
    # element_impedance
    g = prog.func(NA, 'element_impedance')
    ev = new_ev(prog); ev.opaque_fns |= {(NA, 'open_circuit_impedance'), ('Network.transformers', 'remove_element')}
    t = call(ev, g, [A('network'), A('element')])
    at = t.as_atom() if isinstance(t, Poly) else None
    ok = None
    if at and at[0] == 'call' and at[1] == ('fn', 'open_circuit_impedance'):
        kw = dict(at[3]); pos = list(at[2])
        net = kw.get('network', pos[0] if pos else None)
        a1 = kw.get('node1', pos[1] if len(pos) > 1 else None); a2 = kw.get('node2', pos[2] if len(pos) > 2 else None)
        el = ev.getitem(A('network'), A('element'))
        ok = (net == tkey(spec(ev, "remove_element(network, element)", {'network': A('network'), 'element': A('element'), 'remove_element': ev.ref_of(prog.resolve(prog.mod('Network.transformers'), 'remove_element'))}, g.mod))
              and a1 == tkey(ev.getattr(el, 'node1', g.mod, 0)) and a2 == tkey(ev.getattr(el, 'node2', g.mod, 0)))
    rep.ob('R06.shape', 'element_impedance', ok, f'= {t!r:.260}', g.site)


def formulas(rep, prog):
    BP = SR.BP
    f = prog.func(BP, 'short_circuit_current')
    ev = new_ev(prog); ev.opaque_fns |= {(NA, 'open_circuit_impedance'), (BP, 'open_circuit_voltage')}
    env = {'network': A('network'), 'n1': A('n1'), 'n2': A('n2')}
    for nm, short in (('open_circuit_impedance', NA), ('open_circuit_voltage', BP)):
        env[nm] = ev.ref_of(prog.resolve(prog.mod(short), nm))
    t = call(ev, f, [A('network'), A('n1'), A('n2')])
    sp = spec(ev, "open_circuit_voltage(network, n1, n2)/open_circuit_impedance(network, n1, n2)", env, f.mod)
    verdict = compare_terms(t, sp)
    if verdict is not True:
        # the helpers may be inlined instead of called: compare again with the open-circuit voltage unfolded on BOTH sides
        ev_i = new_ev(prog); ev_i.opaque_fns |= {(NA, 'open_circuit_impedance')}
        t_i = call(ev_i, f, [A('network'), A('n1'), A('n2')])
        sp_i = spec(ev_i.fresh(), "open_circuit_voltage(network, n1, n2)/open_circuit_impedance(network, n1, n2)", env, f.mod)
        if compare_terms(t_i, sp_i) is True: verdict = True
    rep.ob('R06.formulas', 'short_circuit_current', verdict, f'= {t!r:.200}', f.site, lhs=t, rhs=sp)
    # Thevenin / Norton objects
    m = prog.mod('Network.equivalent_sources')
    for cname, want in (('TheveninEquivalentSource', {'U': "open_circuit_voltage(network, n1, n2)", 'Z': "open_circuit_impedance(network, n1, n2)"}),
                        ('NortenEquivalentSource', {'I': "open_circuit_voltage(network, n1, n2)/open_circuit_impedance(network, n1, n2)", 'Y': "1/open_circuit_impedance(network, n1, n2)"})):
        cls = m.defs.get(cname)
        if not isinstance(cls, ast.ClassDef):
            rep.ob('R06.formulas', cname, None, 'class not found'); continue
        ev = new_ev(prog); ev.opaque_fns |= {(NA, 'open_circuit_impedance'), (BP, 'open_circuit_voltage')}
        obj = ev.construct(ev.ref_of(('class', m, cls)), [A('network'), A('n1'), A('n2')], {}, 1)
        for fld, src in want.items():
            got = obj.f.get(fld) if isinstance(obj, Rec) else None
            sp = spec(ev, src, env, m)
            rep.ob('R06.formulas', f'{cname}.{fld}', compare_terms(got, sp) if got is not None else None, f'{fld} = {got!r:.160}', prog.site(m, cls), lhs=got, rhs=sp)
    # circuit-level wrappers: one network per swept frequency, analysed at that frequency; the DC resistance is the real part at w = 0
    CI = 'Circuit.impedance'
    opq = {(NA, 'open_circuit_impedance'), (NA, 'element_impedance'), ('Circuit.circuit', 'transform_circuit')}
    refs = {'net_oci': ev.ref_of(prog.resolve(prog.mod(NA), 'open_circuit_impedance')), 'net_ei': ev.ref_of(prog.resolve(prog.mod(NA), 'element_impedance')),
            'transform_circuit': ev.ref_of(prog.resolve(prog.mod('Circuit.circuit'), 'transform_circuit'))}
    cases = [('sweep:open_circuit_impedance', 'open_circuit_impedance', ['circuit', 'n1', 'n2', 'w'], "[net_oci(transform_circuit(circuit, w0), n1, n2) for w0 in w]"),
             ('sweep:element_impedance', 'element_impedance', ['circuit', 'element', 'w'], "[net_ei(transform_circuit(circuit, w0), element) for w0 in w]"),
             ('open_circuit_dc_resistance', 'open_circuit_dc_resistance', ['circuit', 'n1', 'n2'], "real(net_oci(transform_circuit(circuit, 0), n1, n2))"),
             ('element_dc_resistance', 'element_dc_resistance', ['circuit', 'element'], "real(net_ei(transform_circuit(circuit, 0), element))")]
    for key, fn, params, src in cases:
        try:
            g = prog.func(CI, fn)
        except KeyError:
            rep.ob('R06.formulas', key, None, 'function not found'); continue
        e2 = new_ev(prog); e2.opaque_fns |= opq
        t = call(e2, g, [A(p) for p in params])
        env2 = {p: A(p) for p in params}; env2.update(refs)
        sp = spec(e2, src, env2, g.mod)
        rep.ob('R06.formulas', key, compare_terms(t, sp), f'= {t!r:.200}', g.site, lhs=t, rhs=sp)


def imports(rep, prog):
    n = 0
    for key, ok, site, detail in prog.import_obligations():
        if key.startswith(('Network.equivalent_sources:', 'Circuit.impedance:', 'Network.NodalAnalysis.')):
            n += 1
            rep.ob('R0.import', key, ok, detail or 'binds', site)
    if n < 10: raise AnalysisError('import obligations of the port modules vanished')
