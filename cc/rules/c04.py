"""C04 -- linearity and superposition: source zeroing rewrites, exemption threading, RHS/matrix read sets."""
from __future__ import annotations
import ast
from ..report import AnalysisError
from ..callgraph import reachable, element_attr_reads
from . import netxf

NA = 'Network.NodalAnalysis.node_analysis'


def run(rep, prog, tier):
    from .hidden import no_hidden_state
    rep.rule('R04.state', 'no hidden state in the anchored modules: no function writes a module-level object, no caching decorator / cached property')
    no_hidden_state(rep, 'R04.state', prog, ['Network/transformers.py', 'Network/NodalAnalysis/node_analysis.py', 'Network/NodalAnalysis/bias_point_analysis.py', 'Network/elements.py'])
    rep.rule('R04.zeroing', 'a voltage source outside the exemption list becomes impedance(name, Z) on the same terminals, a current source admittance(name, Y); everything else is returned unchanged; reference label kept')
    rep.rule('R04.keep', 'remove_ideal_* / passive_network forward keep= to every inner call that accepts it')
    rep.rule('R04.pure', 'the source-zeroing operations do not write to the network they are given (each single-source sub-network can be derived from the same original)')
    rep.rule('R04.rhs', 'the coefficient matrix reads element attributes only in {Y, Z, name} (plus V inside the ideal-source predicate); source values I / V are read only by the right-hand side')
    netxf.rule_zeroing(rep, prog)
    netxf.rule_keep(rep, prog)
    # ---- read sets
    allowed = {'Y', 'Z', 'name'}
    fns = reachable(prog, f'{NA}::nodal_analysis_coefficient_matrix')
    rep.count('functions_reachable_from_matrix', len(fns))
    if len(fns) < 5:
        raise AnalysisError('call graph from nodal_analysis_coefficient_matrix collapsed')
    bad = []
    for q in sorted(fns):
        f = prog.funcs[q]
        for attr, node in element_attr_reads(f.node):
            if attr in allowed: continue
            if attr == 'V' and f.node.name in ('is_ideal_voltage_source', 'is_voltage_source', 'is_short_circuit'): continue
            if attr == 'I' and f.node.name in ('is_ideal_current_source', 'is_current_source', 'is_open_circuit'): continue
            bad.append((q, attr, f"{f.mod.rel}:{node.lineno}"))
    if bad:
        for q, attr, site in bad:
            rep.ob('R04.rhs', f'matrix-reads:{q}:{attr}', False, f'{q} (reachable from the coefficient matrix) reads source value element.{attr}: the matrix depends on the sources', site)
    else:
        rep.ob('R04.rhs', 'matrix-reads', True, f'{len(fns)} functions reachable from the coefficient matrix read only element.Y/Z/name (and V/I inside the kind predicates)')
    # RHS accumulates the contribution of EVERY source at a node (no non-accumulating scatter), effect-free zeroing
    from . import spacerules as SR
    interps = SR.analyse(prog)
    sc = [o for o in interps['mna'].obs + interps['bias'].obs if o.kind == 'scatter-accumulate']
    if sc:
        for i, o in enumerate(sc[:3]):
            rep.ob('R04.rhs', f'rhs:accumulates#{i}', False, f'{o.detail} [{o.text}] -- with two sources on one node only one of them reaches the right-hand side: superposition fails', o.site)
    else:
        rep.ob('R04.rhs', 'rhs:accumulates', True, 'no non-accumulating scatter in the assembly of the right-hand side')
    from .c20 import effects_of
    eff = effects_of(prog)
    for q in ('Network.transformers::short_circuitify_voltage_sources', 'Network.transformers::open_circuitify_current_sources',
              'Network.transformers::remove_ideal_voltage_sources', 'Network.transformers::remove_ideal_current_sources', 'Network.transformers::passive_network'):
        sm = eff.summ.get(q)
        if sm is None:
            rep.ob('R04.pure', q, None, 'function not found'); continue
        if sm.mut:
            p_, s_ = sorted(sm.mut.items())[0]
            rep.ob('R04.pure', q, False, f'source zeroing writes to the network it is given (`{p_}`): {s_} -- deriving the single-source sub-networks from one original network fails after the first call', prog.funcs[q].site)
        else:
            rep.ob('R04.pure', q, True, 'returns a new network, the input is not written', prog.funcs[q].site)
    # RHS: I and V read once each, as array elements over the label lists of their own source maps
    from . import incidence as INC
    rs = INC.rhs_signs(prog)
    from ..terms import Comp, has_opaque
    it = rs.get('I_term')
    rep.ob('R04.rhs', 'rhs:I', True if rs['I'] is not None else (None if it is None or has_opaque(it) or not isinstance(it, Comp) else False),
           f"current_source_vector = {it!r:.160}", rs.get('site_I', ''))
    vt = rs.get('V_term')
    okv = rs['V'] is not None and isinstance(vt, Comp) and not vt.gens[0][1] and "voltage_source_mapper" in repr(vt.gens[0][0])
    rep.ob('R04.rhs', 'rhs:V', True if okv else (None if vt is None or has_opaque(vt) or not isinstance(vt, Comp) else False),
           f"constants vector = {rs.get('rhs_term')!r:.200}", rs.get('site', ''))
