"""C01 -- steady-state solution obeys KCL / KVL / element laws: index spaces of the MNA system, incidence sign table, current recovery."""
from __future__ import annotations
import ast
from ..api import A, spec
from ..terms import Evaluator, Poly, Rec, Cond, Opq, Comp, tkey, paths_of, term_equal, has_opaque, compare_terms, as_poly
from ..spaces import flat, show
from ..report import AnalysisError
from . import spacerules as SR
from .solutions import class_of, new_ev, method_term

NA = SR.NA


def run(rep, prog, tier):
    from .hidden import no_hidden_state
    rep.rule('R01.state', 'no hidden state in the anchored modules: no function writes a module-level object, no caching decorator / cached property')
    no_hidden_state(rep, 'R01.state', prog, ['Network/NodalAnalysis/node_analysis.py', 'Network/NodalAnalysis/bias_point_analysis.py', 'Network/NodalAnalysis/solution.py', 'Network/NodalAnalysis/label_mapping.py', 'Network/network.py', 'Network/elements.py'])
    rep.rule('R01.space', 'every index, slice, product, stack and solve of the MNA assembly and of the solution read-back joins equal label spaces (index-space typing)')
    rep.rule('R01.layout', 'coefficient matrix is laid out (N+V) x (N+V), right-hand side (N+V) with N = non-reference nodes, V = ideal voltage sources')
    rep.rule('R01.sign', 'incidence sign table: B +1/-1 at node1/node2, Q -1/+1, Y diagonal +sum / off-diagonal -Y, voltage = phi(node1) - phi(node2); relations between assembly and read-back signs')
    rep.rule('R01.Y', 'entries of Y: sum of the finite admittances of exactly the branches touching a node / joining a node pair in either terminal order, over the network without its ideal voltage sources')
    rep.rule('R01.solve', 'the solution is solve(A, b) of the assembled system of the object\'s own network; the all-zero fallback is reachable only through an exception of the solver or a NaN result (no scale-dependent singularity pre-check)')
    rep.rule('R01.current', 'branch current by kind: solution entry (ideal voltage source), I (ideal current source), -(I + V/Z) (linear source), V/Z (passive); power = V conj(I)')
    rep.assume('default label mappers (custom mappers are outside the quantifier)')
    rep.assume('np.linalg.solve is exact and a valid network never reaches the LinAlgError -> zeros fallback (not decided)')
    interps = SR.analyse(prog)
    n = SR.emit(rep, 'R01.space', interps, ['mna', 'bias'])
    if n < 40: rep.error(f'only {n} index-space obligations found in the MNA path')
    rep.count('space_obligations', n)
    layout(rep, interps)
    signs(rep, prog, interps)
    currents(rep, prog)
    solve_path(rep, prog)
    admittance_sums(rep, prog)


def admittance_sums(rep, prog):
    """the entries of Y are sums of the finite branch admittances over exactly the branches that touch the node / join the node pair
    (either terminal order), taken from the network without its ideal voltage sources"""
    from ..api import call
    env = {'network': A('network'), 'node': A('node'), 'n1': A('n1'), 'n2': A('n2'), 'self': A('self')}
    m = prog.mod(NA)
    for fname, args, src in (('admittance_connected_to', [A('network'), A('node')], "sum(b.element.Y for b in network.branches_connected_to(node) if isfinite(b.element.Y))"),
                             ('admittance_between', [A('network'), A('n1'), A('n2')], "sum([b.element.Y for b in network.branches_between(n1, n2) if isfinite(b.element.Y)])")):
        f = prog.func(NA, fname)
        ev = new_ev(prog); ev.assume_finite = False
        t = call(ev, f, args)
        e2 = ev.fresh(); e2.assume_finite = False
        import ast as _ast
        sp = e2.ev(_ast.parse(src, mode='eval').body, dict({'__parent__': None, 'isfinite': __import__('cc.terms', fromlist=['Ref']).Ref('npfun', None, None, 'isfinite'),
                                                           'sum': __import__('cc.terms', fromlist=['Ref']).Ref('builtin', None, None, 'sum')}, **env), m, 0)
        def core(x):
            # Σ over a generator or a list comprehension is the same sum
            if isinstance(x, Opq) and x.k and x.k[0] == 'Σ' and isinstance(x.k[1], Comp): return Comp(x.k[1].elt, x.k[1].gens, 'list')
            return x
        ok = term_equal(core(t), core(sp))
        rep.ob('R01.Y', fname, True if ok else (None if has_opaque(t) else False), f'= {t!r:.200}', f.site, lhs=t, rhs=sp)
    nm = prog.mod('Network.network'); ncls = nm.defs.get('Network')
    for meth, args, src in (('branches_between', [A('n1'), A('n2')], "[b for b in self.branches if set((b.node1, b.node2)) == set((n1, n2))]"),):
        mem = prog.find_member(nm, ncls, meth)
        ev = new_ev(prog)
        t = ev.call_fn(mem[1], mem[0], [A('self')] + args, {}, {'__parent__': None}, 1)
        sp = spec(ev, src, env, nm)
        ok = term_equal(t, sp)
        rep.ob('R01.Y', f'Network.{meth}', True if ok else (None if has_opaque(t) else False), f'= {t!r:.200}', prog.site(mem[0], mem[1]), lhs=t, rhs=sp)
    # branches_connected_to: membership test (the subsequent sort does not change the set)
    mem = prog.find_member(nm, ncls, 'branches_connected_to')
    fn = mem[1]
    ev = new_ev(prog)
    t = ev.call_fn(fn, mem[0], [A('self'), A('node')], {}, {'__parent__': None}, 1)
    while isinstance(t, Opq) and t.k and t.k[0] == 'mutated' and t.k[1] == 'sort': t = t.k[2]        # sorting does not change the membership
    sp = spec(ev, "[b for b in self.branches if b.node1 == node or b.node2 == node]", env, nm)
    okc = True if term_equal(t, sp) else (None if has_opaque(t) or not isinstance(t, Comp) else False)
    rep.ob('R01.Y', 'Network.branches_connected_to', okc, 'branches with either terminal on the node', prog.site(mem[0], fn))
    # node_admittance_matrix works on the network without exactly its ideal voltage sources
    f = prog.func(NA, 'node_admittance_matrix')
    st = [s_ for s_ in f.node.body if isinstance(s_, _ast.Assign) and isinstance(s_.value, _ast.Call) and _ast.unparse(s_.value.func) == 'Network']
    okn = None
    if st:
        ev = new_ev(prog); ev.opaque_fns |= {('Network.elements', 'is_ideal_voltage_source')}
        t = ev.ev(st[0].value, {'__parent__': None, 'network': A('network')}, m, 1)
        envn = dict(env, Network=ev.ref_of(prog.resolve(prog.mod('Network.network'), 'Network')), is_ideal_voltage_source=ev.ref_of(prog.resolve(prog.mod('Network.elements'), 'is_ideal_voltage_source')))
        e3 = ev.fresh(); e3.opaque_fns = set(ev.opaque_fns)
        sp = e3.ev(_ast.parse("Network(branches=[b for b in network.branches if not is_ideal_voltage_source(b.element)], node_zero_label=network.node_zero_label)", mode='eval').body, dict({'__parent__': None}, **envn), m, 0)
        okn = True if term_equal(t, sp) else (None if has_opaque(t) else False)
    rep.ob('R01.Y', 'without-ideal-voltage-sources', okn, 'Y is assembled from all branches except the ideal voltage sources, same reference node', f.site)


def solve_path(rep, prog):
    """the solution vector is solve(A, b) of the two assembly functions for the object's own network; the all-zero fallback is reachable only
    through an exception raised by the solver itself or a NaN result -- no scale-dependent singularity pre-check"""
    mm, cls = class_of(prog, SR.BP, 'NodalAnalysisBiasPointSolution')
    mem = prog.find_member(mm, cls, '__post_init__')
    fn = mem[1]; site = prog.site(mem[0], fn)
    ev = new_ev(prog); ev.opaque_fns |= {(NA, 'nodal_analysis_coefficient_matrix'), (NA, 'nodal_analysis_constants_vector')}
    ev.call_fn(fn, mem[0], [A('self')], {}, {'__parent__': None}, 1)
    sv = ev.stores.get(('self', '_solution_vector'))
    env = {'self': A('self')}
    for nm in ('nodal_analysis_coefficient_matrix', 'nodal_analysis_constants_vector'):
        env[nm] = ev.ref_of(prog.resolve(prog.mod(NA), nm))
    leaves = [l for _, l in paths_of(sv)] if sv is not None else []
    want = "('call', ('ext', 'numpy.linalg.solve')"
    coef = tkey(spec(ev, "nodal_analysis_coefficient_matrix(self.network, node_mapper=self.node_mapper)", env, mm))
    rhs = tkey(spec(ev, "nodal_analysis_constants_vector(self.network, node_mapper=self.node_mapper)", env, mm))
    ok = None
    solved = [l for l in leaves if isinstance(l, Poly) and l.as_atom() and l.as_atom()[0] == 'solve']
    if solved:
        args = solved[0].as_atom()[1:]
        ok = len(args) == 2 and args[0] == coef and args[1] == rhs
    rep.ob('R01.solve', 'system', ok, f'_solution_vector = {sv!r:.260}', site)
    # fallback discipline, checked in the function that holds the call of the solver (the method itself or a helper it delegates to)
    holders = []
    cands = [(mem[0], fn)] + [(prog.mod(ms), prog.mod(ms).defs.get(nm)) for ms, nm in ev.calls if isinstance(prog.mod(ms).defs.get(nm), ast.FunctionDef)]
    for cm, cf in cands:
        if any(isinstance(n, ast.Call) and ast.unparse(n.func).split('.')[-1] == 'solve' for n in ast.walk(cf)): holders.append((cm, cf))
    if not holders:
        rep.ob('R01.solve', 'fallback-only-from-solver', None, 'no call of a linear solver found on the path of __post_init__', site); return
    cm, cf = holders[0]
    raises = [n for n in ast.walk(cf) if isinstance(n, ast.Raise)]
    tries = [n for n in ast.walk(cf) if isinstance(n, ast.Try) and any(isinstance(x, ast.Call) and ast.unparse(x.func).split('.')[-1] == 'solve' for b_ in n.body for x in ast.walk(b_))]
    def is_fallback(stmt):
        return any(isinstance(x, ast.Call) and ast.unparse(x.func).split('.')[-1] in ('zeros', 'zeros_like') for x in ast.walk(stmt))
    bad = []
    # (1) nothing but the solve (and plain bindings) inside the try; (2) no raise; (3) zero fallbacks only in the handler or under an isnan test
    for t_ in tries:
        for s_ in t_.body:
            if not (isinstance(s_, (ast.Assign, ast.Return, ast.Expr)) and not any(isinstance(x, (ast.If, ast.Raise)) for x in ast.walk(s_))): bad.append(s_)
    handler_nodes = {id(x) for t_ in tries for h in t_.handlers for x in ast.walk(h)}
    for n in ast.walk(cf):
        if isinstance(n, ast.If):
            guarded_fallback = any(is_fallback(x) for x in n.body)
            if guarded_fallback and id(n) not in handler_nodes and 'isnan' not in ast.unparse(n.test): bad.append(n)
    okf = not raises and not bad and len(tries) == 1
    rep.ob('R01.solve', 'fallback-only-from-solver', okf,
           'the zero fallback is reached only through an exception of np.linalg.solve or a NaN result' if okf else
           f'additional ways into the all-zero fallback: {[ast.unparse(x)[:70] for x in raises + bad][:3]} -- a well-posed but badly scaled network is reported as all zeros', prog.site(cm, cf))


def _preds(space):
    return [x[1].split('@')[0] if x[0] == 'S' else show(x) for x in flat(space)]


def layout(rep, interps):
    it = interps['mna']
    coef, rhs = it.result_coef, it.result_rhs
    want = ['node!=zero', 'is_ideal_voltage_source']
    for name, arr, nax in (('coefficient-matrix', coef, 2), ('constants-vector', rhs, 1)):
        if arr is None or arr.kind != 'array' or len(arr.axes) != nax:
            rep.ob('R01.layout', name, None, f'result not followed: {arr!r}'); continue
        ok = all(_preds(ax) == want for ax in arr.axes)
        rep.ob('R01.layout', name, ok, ' × '.join(show(a) for a in arr.axes))


def _return_signs(fn, prog=None):
    """[(terminal, sign)] of the nested direction function of the voltage-source incidence: value returned when the node is node1 / node2"""
    if prog is not None:
        inner = next((n for n in ast.walk(fn) if isinstance(n, ast.FunctionDef) and n is not fn), None)
        if inner is not None:
            ev = Evaluator(prog)
            m = prog.mod(NA)
            t = ev.call_fn(inner, m, [A('vs'), A('node')], {}, {'__parent__': None, 'network': A('network')}, 1)
            out = []
            for pc, leaf in paths_of(t):
                trues = [g for g, v in pc if v]
                c = as_poly(leaf).real_const() if isinstance(leaf, (Poly, int)) else None
                if len(trues) == 1 and c in (1, -1):
                    for term in ('node1', 'node2'):
                        if f"'{term}'" in trues[0]: out.append((term, int(c)))
            if out: return out
    out = []
    for st in ast.walk(fn):
        if isinstance(st, ast.If) and st.body and isinstance(st.body[0], ast.Return):
            v = st.body[0].value
            sg = None
            if isinstance(v, ast.Constant) and v.value in (1, -1): sg = v.value
            if isinstance(v, ast.UnaryOp) and isinstance(v.op, ast.USub) and isinstance(v.operand, ast.Constant) and v.operand.value == 1: sg = -1
            t = ast.unparse(st.test)
            term = 'node1' if 'node1' in t else ('node2' if 'node2' in t else None)
            if sg is not None and term and isinstance(st.test, ast.Compare) and isinstance(st.test.ops[0], ast.Eq): out.append((term, sg))
    return out


def signs(rep, prog, interps):
    m = prog.mod(NA)
    table = {}
    # B: voltage_source_incidence_matrix (value returned by the nested direction function, stored at [node, vs])
    f = prog.funcs.get(f'{NA}::voltage_source_incidence_matrix')
    rs = _return_signs(f.node, prog) if f else []
    for term, sg in rs: table[('B', term)] = sg
    # Q and Delta: constants stored at incidence sites (from the abstract run)
    for e in ('mna', 'ssm'):
        for s in interps[e].signs:
            if s['fn'].endswith('source_incidence_matrix') and 'inductance' not in s['fn'] and s['terminal']: table[('Q', s['terminal'])] = s['sign']
            if s['fn'].endswith('element_incidence_matrix') and s['terminal']: table[('Delta', s['terminal'])] = s['sign']
    site = f.site if f else ''
    for mat in ('B', 'Q', 'Delta'):
        a, b = table.get((mat, 'node1')), table.get((mat, 'node2'))
        if a is None or b is None:
            rep.ob('R01.sign', f'{mat}:antisymmetric', None, f'incidence site of {mat} not recognised (node1={a}, node2={b})', site); continue
        rep.ob('R01.sign', f'{mat}:antisymmetric', a == -b, f'{mat}[node1]={a:+d}, {mat}[node2]={b:+d}', site)
    # Y: diagonal +sum, off-diagonal -between
    g = prog.funcs.get(f'{NA}::node_admittance_matrix.node_matrix_element')
    okY = None
    if g is not None:
        ev = Evaluator(prog); ev.opaque_fns |= {(NA, 'admittance_connected_to'), (NA, 'admittance_between')}
        parent = prog.func(NA, 'node_admittance_matrix')
        env = {'__parent__': None, 'no_voltage_sources_network': A('net')}
        t = ev.call_fn(g.node, g.mod, [A('i'), A('j')], {}, env, 1)
        if isinstance(t, Cond):
            d, o = t.a, t.b
            sd = "'admittance_connected_to'" in repr(tkey(d)) and as_poly(d).single() is not None and as_poly(d).single()[1][0] > 0
            so = "'admittance_between'" in repr(tkey(o)) and as_poly(o).single() is not None and as_poly(o).single()[1][0] < 0
            okY = bool(sd and so) if not (has_opaque(d) or has_opaque(o)) else None
            rep.ob('R01.sign', 'Y:diag/offdiag', okY, f'i==j: {d!r:.80} ; else {o!r:.80}', g.site)
        else:
            rep.ob('R01.sign', 'Y:diag/offdiag', None, f'{t!r:.120}', g.site)
    # voltage = phi(node1) - phi(node2)
    mm, cls = class_of(prog, 'Network.NodalAnalysis.solution', 'NodalAnalysisSolution')
    ev = new_ev(prog)
    t, st = method_term(prog, ev, mm, cls, 'get_voltage', [A('id')])
    sp = spec(ev, "self.get_potential(self.network[id].node1) - self.get_potential(self.network[id].node2)", {'self': A('self'), 'id': A('id')}, mm)
    cv = compare_terms(t, sp)
    rep.ob('R01.sign', 'get_voltage', cv, f'= {t!r:.200}', st, lhs=t, rhs=sp)
    sV = 1 if cv is True else None
    # open-circuit voltage
    f2 = prog.func(SR.BP, 'open_circuit_voltage')
    ev = new_ev(prog)
    ev.opaque_classes |= {'NodalAnalysisBiasPointSolution'}
    from ..api import call
    t = call(ev, f2, [A('network'), A('n1'), A('n2')])
    leaves = [l for _, l in paths_of(t)]
    ok = None
    nz = [l for l in leaves if not (isinstance(l, (int, Poly)) and as_poly(l).is_zero())]
    if nz:
        k = repr(tkey(nz[0]))
        p = as_poly(nz[0])
        pos = [c for mono, c in p.t.items() if "'n1'" in repr(mono) and "'n2'" not in repr(mono)]
        neg = [c for mono, c in p.t.items() if "'n2'" in repr(mono) and "'n1'" not in repr(mono)]
        if pos and neg: ok = all(c[0] > 0 for c in pos) and all(c[0] < 0 for c in neg)
    rep.ob('R01.sign', 'open_circuit_voltage', ok, f'= {t!r:.200}', f2.site)
    # relations between assembly and read-back (all signs relative): s_Q(node1)*s_rhs = -s_B(node1)*s_read ; sign(get_voltage,node1)*s_V = s_B(node1)*s_read
    s_read, s_rhs, s_Vsrc = _readback_signs(prog)
    if None in (table.get(('B', 'node1')), table.get(('Q', 'node1')), s_read, s_rhs, s_Vsrc, sV):
        rep.ob('R01.sign', 'relation:KCL', None, f"signs not all recognised: B={table.get(('B','node1'))} Q={table.get(('Q','node1'))} read={s_read} rhs={s_rhs}")
        rep.ob('R01.sign', 'relation:KVL', None, 'signs not all recognised')
    else:
        sB, sQ = table[('B', 'node1')], table[('Q', 'node1')]
        rep.ob('R01.sign', 'relation:KCL', sQ * s_rhs == -sB * s_read,
               f'current source leaving node1 enters the balance with {sQ * s_rhs:+d}, a voltage-source current with {sB * s_read:+d}: both branch currents are counted first->second terminal')
        rep.ob('R01.sign', 'relation:KVL', sV * s_Vsrc == sB * s_read,
               f'constraint row B^T phi = {s_Vsrc:+d}·V with B[node1]={sB:+d}; reported voltage phi(node1)-phi(node2) and reported current {s_read:+d}·x')


def _readback_signs(prog):
    """(sign with which get_current returns the solution entry, sign of Q@Is in the RHS, sign of V in the RHS)"""
    s_read = s_rhs = s_v = None
    mm, cls = class_of(prog, SR.BP, 'NodalAnalysisBiasPointSolution')
    ev = new_ev(prog)
    t, _ = method_term(prog, ev, mm, cls, 'get_current', [A('id')])
    first = t.a if isinstance(t, Cond) else t
    p = as_poly(first) if isinstance(first, (Poly, int)) else None
    if p is not None and p.single() is not None and '_voltage_source_currents' in repr(p.key()):
        s_read = 1 if p.single()[1][0] > 0 else -1
    from ..prog import returned_expr
    f = prog.func(NA, 'current_source_incidence_vector')
    rv = returned_expr(f.node)
    if isinstance(rv, ast.BinOp) and isinstance(rv.op, ast.MatMult): s_rhs = 1
    if isinstance(rv, ast.UnaryOp) and isinstance(rv.op, ast.USub): s_rhs = -1
    f = prog.func(NA, 'nodal_analysis_constants_vector')
    src = ast.unparse(f.node)
    for n in ast.walk(f.node):
        if isinstance(n, ast.ListComp) and 'element.V' in ast.unparse(n.elt):
            s_v = -1 if isinstance(n.elt, ast.UnaryOp) and isinstance(n.elt.op, ast.USub) else 1
    for n in [returned_expr(f.node)]:
        if isinstance(n, ast.Call) and 'hstack' in ast.unparse(n.func):
            parts = n.args[0].elts if n.args and isinstance(n.args[0], ast.Tuple) else []
            for prt in parts:
                if isinstance(prt, ast.UnaryOp) and isinstance(prt.op, ast.USub):
                    nm = ast.unparse(prt.operand)
                    if nm == 'I' and s_rhs is not None: s_rhs = -s_rhs
                    if nm == 'V' and s_v is not None: s_v = -s_v
    return s_read, s_rhs, s_v


def currents(rep, prog):
    mm, cls = class_of(prog, SR.BP, 'NodalAnalysisBiasPointSolution')
    ev = new_ev(prog)
    t, st = method_term(prog, ev, mm, cls, 'get_current', [A('id')])
    src = ("self._voltage_source_currents[self._voltage_source_mapping[id]] if id in self._voltage_source_mapping.keys else ("
           "E.I if (abs(E.I) >= 0 and E.Y == 0) else ((-(E.I + self.get_voltage(id)/E.Z)) if abs(E.I) > 0 else self.get_voltage(id)/E.Z))")
    E = ev.getattr(ev.getitem(ev.getattr(A('self'), 'network', mm, 0), A('id')), 'element', mm, 0)
    sp = spec(ev, src, {'self': A('self'), 'id': A('id'), 'E': E}, mm)
    rep.ob('R01.current', 'get_current', compare_terms(t, sp), f'= {t!r:.300}', st, lhs=t, rhs=sp)
    # potential of the reference node is zero, others read from the potential block
    t, st = method_term(prog, ev, mm, cls, 'get_potential', [A('id')])
    sp = spec(ev, "0 if id == self.network.node_zero_label else self._potentials[self._node_mapping[id]]", {'self': A('self'), 'id': A('id')}, mm)
    rep.ob('R01.current', 'get_potential', compare_terms(t, sp), f'= {t!r:.200}', st, lhs=t, rhs=sp)
    m2, c2 = class_of(prog, 'Network.NodalAnalysis.solution', 'NodalAnalysisSolution')
    t, st = method_term(prog, new_ev(prog), m2, c2, 'get_power', [A('id')])
    sp = spec(ev, "self.get_voltage(id)*conj(self.get_current(id))", {'self': A('self'), 'id': A('id')}, m2)
    rep.ob('R01.current', 'get_power', compare_terms(t, sp), f'= {t!r:.160}', st)
