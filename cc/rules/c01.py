"""C01 -- steady-state solution obeys KCL / KVL / element laws: index spaces of the MNA system, incidence sign table, current recovery."""
from __future__ import annotations
import ast
from ..api import A, spec
from ..terms import show, Evaluator, Poly, Rec, Cond, Opq, Comp, tkey, paths_of, term_equal, has_opaque, compare_terms, as_poly
from ..spaces import flat, show
from ..report import AnalysisError
from . import spacerules as SR
from .solutions import class_of, new_ev, method_term

NA = SR.NA


def run(rep, prog, tier):
    from .hidden import no_hidden_state
    rep.rule('R01.state', 'no hidden state in the anchored modules: no function writes a module-level object, no caching decorator / cached property')
    no_hidden_state(rep, 'R01.state', prog, ['Network/NodalAnalysis/node_analysis.py', 'Network/NodalAnalysis/bias_point_analysis.py', 'Network/NodalAnalysis/solution.py', 'Network/NodalAnalysis/label_mapping.py', 'Network/network.py', 'Network/elements.py'])
    rep.rule('R01.space', 'every index, slice, product, stack and solve of the MNA assembly and of the solution read-back joins equal label spaces (index-space typing)')
    rep.rule('R01.layout', 'coefficient matrix is laid out (N+V) x (N+V), right-hand side (N+V) with N = non-reference nodes, V = ideal voltage sources')
    rep.rule('R01.sign', 'incidence sign table: B +1/-1 at node1/node2, Q -1/+1, Y diagonal +sum / off-diagonal -Y, voltage = phi(node1) - phi(node2); relations between assembly and read-back signs')
    rep.rule('R01.Y', 'entries of Y: sum of the finite admittances of exactly the branches touching a node / joining a node pair in either terminal order, over the network without its ideal voltage sources')
    rep.rule('R01.solve', 'the solution is solve(A, b) of the assembled system of the object\'s own network; the all-zero fallback is reachable only through an exception of the solver or a NaN result (no scale-dependent singularity pre-check)')
    rep.rule('R01.current', 'branch current by kind: solution entry (ideal voltage source), I (ideal current source), -(I + V/Z) (linear source), V/Z (passive); power = V conj(I)')
    rep.assume('default label mappers (custom mappers are outside the quantifier)')
    rep.assume('np.linalg.solve is exact and a valid network never reaches the LinAlgError -> zeros fallback (not decided)')
    interps = SR.analyse(prog)
    n = SR.emit(rep, 'R01.space', interps, ['mna', 'bias'])
    if n < 10: rep.error(f'only {n} index-space obligations found in the MNA path')
    rep.count('space_obligations', n)
    layout(rep, interps)
    signs(rep, prog, interps)
    currents(rep, prog)
    solve_path(rep, prog)
    admittance_sums(rep, prog)


def admittance_sums(rep, prog):
    """the entries of Y are sums of the finite branch admittances over exactly the branches that touch the node / join the node pair
    (either terminal order), taken from the network without its ideal voltage sources"""
    from ..api import call
    env = {'network': A('network'), 'node': A('node'), 'n1': A('n1'), 'n2': A('n2'), 'self': A('self')}
    m = prog.mod(NA)
    for fname, args, src in (('admittance_connected_to', [A('network'), A('node')], "sum(b.element.Y for b in network.branches_connected_to(node) if isfinite(b.element.Y))"),
                             ('admittance_between', [A('network'), A('n1'), A('n2')], "sum([b.element.Y for b in network.branches_between(n1, n2) if isfinite(b.element.Y)])")):
        f = prog.func(NA, fname)
        ev = new_ev(prog); ev.assume_finite = False
        t = call(ev, f, args)
        e2 = ev.fresh(); e2.assume_finite = False
        import ast as _ast
        sp = e2.ev(_ast.parse(src, mode='eval').body, dict({'__parent__': None, 'isfinite': __import__('cc.terms', fromlist=['Ref']).Ref('npfun', None, None, 'isfinite'),
                                                           'sum': __import__('cc.terms', fromlist=['Ref']).Ref('builtin', None, None, 'sum')}, **env), m, 0)
        def core(x):
            # Σ over a generator or a list comprehension is the same sum
            if isinstance(x, Opq) and x.k and x.k[0] == 'Σ' and isinstance(x.k[1], Comp): return Comp(x.k[1].elt, x.k[1].gens, 'list')
            return x
        ok = term_equal(core(t), core(sp))
        rep.ob('R01.Y', fname, True if ok else (None if has_opaque(t) else False), f'= {t!r:.200}', f.site, lhs=t, rhs=sp)
    nm = prog.mod('Network.network'); ncls = nm.defs.get('Network')
    for meth, args, src in (('branches_between', [A('n1'), A('n2')], "[b for b in self.branches if set((b.node1, b.node2)) == set((n1, n2))]"),):
        mem = prog.find_member(nm, ncls, meth)
        ev = new_ev(prog)
        t = ev.call_fn(mem[1], mem[0], [A('self')] + args, {}, {'__parent__': None}, 1)
        sp = spec(ev, src, env, nm)
        ok = term_equal(t, sp)
        rep.ob('R01.Y', f'Network.{meth}', True if ok else (None if has_opaque(t) else False), f'= {t!r:.200}', prog.site(mem[0], mem[1]), lhs=t, rhs=sp)
    # branches_connected_to: membership test (the subsequent sort does not change the set)
    mem = prog.find_member(nm, ncls, 'branches_connected_to')
    fn = mem[1]
    ev = new_ev(prog)
    t = ev.call_fn(fn, mem[0], [A('self'), A('node')], {}, {'__parent__': None}, 1)
    while isinstance(t, Opq) and t.k and ((t.k[0] == 'mutated' and t.k[1] == 'sort') or t.k[0] == 'sorted'):        # sorting does not change the membership
        t = t.k[2] if t.k[0] == 'mutated' else t.k[1]
    sp = spec(ev, "[b for b in self.branches if b.node1 == node or b.node2 == node]", env, nm)
    okc = True if term_equal(t, sp) else (None if has_opaque(t) or not isinstance(t, Comp) else False)
    rep.ob('R01.Y', 'Network.branches_connected_to', okc, 'branches with either terminal on the node', prog.site(mem[0], fn))


def solve_path(rep, prog):
    """the solution vector is solve(A, b) of the two assembly functions for the object's own network; the all-zero fallback is reachable only
    through an exception raised by the solver itself or a NaN result -- no scale-dependent singularity pre-check"""
    mm, cls = class_of(prog, SR.BP, 'NodalAnalysisBiasPointSolution')
    mem = prog.find_member(mm, cls, '__post_init__')
    fn = mem[1]; site = prog.site(mem[0], fn)
    ev = new_ev(prog); ev.opaque_fns |= {(NA, 'nodal_analysis_coefficient_matrix'), (NA, 'nodal_analysis_constants_vector')}
    ev.self_class = (mm, cls)          # private helper methods of the class are followed
    ev.call_fn(fn, mem[0], [A('self')], {}, {'__parent__': None}, 1)
    sv = ev.stores.get(('self', '_solution_vector'))
    env = {'self': A('self')}
    for nm in ('nodal_analysis_coefficient_matrix', 'nodal_analysis_constants_vector'):
        env[nm] = ev.ref_of(prog.resolve(prog.mod(NA), nm))
    leaves = [l for _, l in paths_of(sv)] if sv is not None else []
    want = "('call', ('ext', 'numpy.linalg.solve')"
    coef = tkey(spec(ev, "nodal_analysis_coefficient_matrix(self.network, node_mapper=self.node_mapper)", env, mm))
    rhs = tkey(spec(ev, "nodal_analysis_constants_vector(self.network, node_mapper=self.node_mapper)", env, mm))
    ok = None
    solved = [l for l in leaves if isinstance(l, Poly) and l.as_atom() and l.as_atom()[0] == 'solve']
    if solved:
        args = solved[0].as_atom()[1:]
        ok = len(args) == 2 and args[0] == coef and args[1] == rhs
    rep.ob('R01.solve', 'system', ok, f'_solution_vector = {sv!r:.260}', site)
    # fallback discipline, checked in the function that holds the call of the solver (the method itself or a helper it delegates to)
    holders = []
    cands = [(mem[0], fn)] + [(prog.mod(ms), prog.mod(ms).defs.get(nm)) for ms, nm in ev.calls if isinstance(prog.mod(ms).defs.get(nm), ast.FunctionDef)]
    for cm_, cc_ in prog.mro(mm, cls):          # ... or a private method of the class
        cands += [(cm_, n) for n in cc_.body if isinstance(n, ast.FunctionDef) and n is not fn and n.name.startswith('_') and not n.name.startswith('__')]
    for cm, cf in cands:
        if any(isinstance(n, ast.Call) and ast.unparse(n.func).split('.')[-1] == 'solve' for n in ast.walk(cf)): holders.append((cm, cf))
    if not holders:
        rep.ob('R01.solve', 'fallback-only-from-solver', None, 'no call of a linear solver found on the path of __post_init__', site); return
    cm, cf = holders[0]
    raises = [n for n in ast.walk(cf) if isinstance(n, ast.Raise)]
    tries = [n for n in ast.walk(cf) if isinstance(n, ast.Try) and any(isinstance(x, ast.Call) and ast.unparse(x.func).split('.')[-1] == 'solve' for b_ in n.body for x in ast.walk(b_))]
    # every way into a value other than solve(A, b) is a test of the SOLUTION for NaN (the handler of an exception of the solver is the only other
    # way, and a test inside the try that raises shows up as a guard here, too): read off the guards of the stored value
    bad = []; undecided = []
    for pc, leaf in (paths_of(sv) if sv is not None else []):
        at = leaf.as_atom() if isinstance(leaf, Poly) else None
        if isinstance(at, tuple) and at[0] == 'solve': continue
        zero = (isinstance(leaf, Opq) and leaf.k and leaf.k[0] in ('np.zeros', 'np.zeros_like')) or (isinstance(leaf, Poly) and leaf.is_zero())
        if not zero: undecided.append(f'{leaf!r:.60}'); continue
        if not pc: bad.append('the all-zero vector is stored unconditionally')
        for gk, pol in pc:
            r_ = repr(gk)
            if not ("'isnan'" in r_ and "'solve'" in r_): bad.append(f'guard {show(gk) if isinstance(gk, tuple) else gk!r:.80}')
    okf = False if (raises or bad) else (None if undecided or len(tries) != 1 else True)
    rep.ob('R01.solve', 'fallback-only-from-solver', okf,
           'the zero fallback is reached only through an exception of np.linalg.solve or a NaN result' if okf else
           f'additional ways into the all-zero fallback: {([ast.unparse(x)[:70] for x in raises] + bad + undecided)[:3]} -- a well-posed but badly scaled network is reported as all zeros', prog.site(cm, cf))


def _preds(space):
    return [x[1].split('@')[0] if x[0] == 'S' else show(x) for x in flat(space)]


def layout(rep, interps):
    it = interps['mna']
    coef, rhs = it.result_coef, it.result_rhs
    want = ['node!=zero', 'is_ideal_voltage_source']
    for name, arr, nax in (('coefficient-matrix', coef, 2), ('constants-vector', rhs, 1)):
        if arr is None or arr.kind != 'array' or len(arr.axes) != nax:
            rep.ob('R01.layout', name, None, f'result not followed: {arr!r}'); continue
        ok = all(_preds(ax) == want for ax in arr.axes)
        if not ok and any('?:' in show(ax) for ax in arr.axes): ok = None          # an axis that was not typed: undecided, not refuted
        rep.ob('R01.layout', name, ok, ' × '.join(show(a) for a in arr.axes))


def _return_signs(fn, prog=None):
    """[(terminal, sign)] of the nested direction function of the voltage-source incidence: value returned when the node is node1 / node2"""
    if prog is not None:
        inner = next((n for n in ast.walk(fn) if isinstance(n, ast.FunctionDef) and n is not fn), None)
        if inner is not None:
            ev = Evaluator(prog)
            m = prog.mod(NA)
            t = ev.call_fn(inner, m, [A('vs'), A('node')], {}, {'__parent__': None, 'network': A('network')}, 1)
            out = []
            for pc, leaf in paths_of(t):
                trues = [g for g, v in pc if v]
                c = as_poly(leaf).real_const() if isinstance(leaf, (Poly, int)) else None
                if len(trues) == 1 and c in (1, -1):
                    for term in ('node1', 'node2'):
                        if f"'{term}'" in trues[0]: out.append((term, int(c)))
            if out: return out
    out = []
    for st in ast.walk(fn):
        if isinstance(st, ast.If) and st.body and isinstance(st.body[0], ast.Return):
            v = st.body[0].value
            sg = None
            if isinstance(v, ast.Constant) and v.value in (1, -1): sg = v.value
            if isinstance(v, ast.UnaryOp) and isinstance(v.op, ast.USub) and isinstance(v.operand, ast.Constant) and v.operand.value == 1: sg = -1
            t = ast.unparse(st.test)
            term = 'node1' if 'node1' in t else ('node2' if 'node2' in t else None)
            if sg is not None and term and isinstance(st.test, ast.Compare) and isinstance(st.test.ops[0], ast.Eq): out.append((term, sg))
    return out


def signs(rep, prog, interps):
    from . import incidence as INC
    tabs = INC.tables(prog)
    table = {}
    for mat in ('B', 'Q', 'Delta'):
        tb = tabs[mat]
        site = tb.get('site', '')
        if 'undecided' in tb:
            rep.ob('R01.sign', f'{mat}:antisymmetric', None, f"incidence table of {mat} not decided: {tb['undecided']}", site); continue
        a, b, o = tb['node1'], tb['node2'], tb['other']
        table[(mat, 'node1')], table[(mat, 'node2')] = int(a), int(b)
        ok = a == -b and abs(a) == 1 and o == 0
        rep.ob('R01.sign', f'{mat}:antisymmetric', bool(ok), f'{mat}[node1]={int(a):+d}, {mat}[node2]={int(b):+d}, elsewhere {o}', site)
        rep.ob('R01.sign', f'{mat}:reference-skipped', bool(tb['ref_guard']),
               'a terminal on the reference node stores nothing (the node map has no row for it)' if tb['ref_guard'] else 'a terminal on the reference node is looked up in the node map', site)
    # Y: diagonal +sum over the branches at the node, off-diagonal -sum over the branches between the two nodes, on the network without ideal voltage sources
    yt = INC.admittance_table(prog)
    if 'undecided' in yt:
        rep.ob('R01.sign', 'Y:diag/offdiag', None, f"entries of Y not decided: {yt['undecided']}", yt.get('site', ''))
        rep.ob('R01.Y', 'without-ideal-voltage-sources', None, 'entries of Y not decided', yt.get('site', ''))
    else:
        (cd, fd, ad, kd), (co, fo, ao, ko) = yt['diag'], yt['off']
        Lr, Lc = yt['off:labels']
        Ldr, Ldc = yt.get('diag:labels', (Lr, Lc))          # (the diagonal may be written by a loop of its own)
        okd = cd == 1 and fd == 'admittance_connected_to' and len(ad) == 2 and not kd and ad[1] in (tkey(Lr), tkey(Lc), tkey(Ldr), tkey(Ldc))
        oko = co == -1 and fo == 'admittance_between' and len(ao) == 3 and not ko and {repr(ao[1]), repr(ao[2])} == {repr(tkey(Lr)), repr(tkey(Lc))}
        rep.ob('R01.sign', 'Y:diag/offdiag', bool(okd and oko), f'row == column: {cd}·{fd}(net, row) ; else {co}·{fo}(net, row, column)', yt['site'])
        want = tkey(yt['spec_network'])
        okn = (ad and ad[0] == want) and (ao and ao[0] == want)
        rep.ob('R01.Y', 'without-ideal-voltage-sources', True if okn else (None if ('opq', '?') in (ad[:1] + ao[:1]) else False),
               'Y is assembled from all branches except the ideal voltage sources, same reference node', yt['site'])
    # voltage = phi(node1) - phi(node2)
    mm, cls = class_of(prog, 'Network.NodalAnalysis.solution', 'NodalAnalysisSolution')
    ev = new_ev(prog)
    t, st = method_term(prog, ev, mm, cls, 'get_voltage', [A('id')])
    sp = spec(ev, "self.get_potential(self.network[id].node1) - self.get_potential(self.network[id].node2)", {'self': A('self'), 'id': A('id')}, mm)
    cv = compare_terms(t, sp)
    rep.ob('R01.sign', 'get_voltage', cv, f'= {t!r:.200}', st, lhs=t, rhs=sp)
    sV = 1 if cv is True else None
    # open-circuit voltage
    f2 = prog.func(SR.BP, 'open_circuit_voltage')
    ev = new_ev(prog)
    ev.opaque_classes |= {'NodalAnalysisBiasPointSolution'}
    from ..api import call
    t = call(ev, f2, [A('network'), A('n1'), A('n2')])
    leaves = [l for _, l in paths_of(t)]
    ok = None
    nz = [l for l in leaves if not (isinstance(l, (int, Poly)) and as_poly(l).is_zero())]
    if nz:
        k = repr(tkey(nz[0]))
        p = as_poly(nz[0])
        pos = [c for mono, c in p.t.items() if "'n1'" in repr(mono) and "'n2'" not in repr(mono)]
        neg = [c for mono, c in p.t.items() if "'n2'" in repr(mono) and "'n1'" not in repr(mono)]
        if pos and neg: ok = all(c[0] > 0 for c in pos) and all(c[0] < 0 for c in neg)
    rep.ob('R01.sign', 'open_circuit_voltage', ok, f'= {t!r:.200}', f2.site)
    # relations between assembly and read-back (all signs relative): s_Q(node1)*s_rhs = -s_B(node1)*s_read ; sign(get_voltage,node1)*s_V = s_B(node1)*s_read
    s_read, s_rhs, s_Vsrc = _readback_signs(prog)
    if None in (table.get(('B', 'node1')), table.get(('Q', 'node1')), s_read, s_rhs, s_Vsrc, sV):
        rep.ob('R01.sign', 'relation:KCL', None, f"signs not all recognised: B={table.get(('B','node1'))} Q={table.get(('Q','node1'))} read={s_read} rhs={s_rhs}")
        rep.ob('R01.sign', 'relation:KVL', None, 'signs not all recognised')
    else:
        sB, sQ = table[('B', 'node1')], table[('Q', 'node1')]
        rep.ob('R01.sign', 'relation:KCL', sQ * s_rhs == -sB * s_read,
               f'current source leaving node1 enters the balance with {sQ * s_rhs:+d}, a voltage-source current with {sB * s_read:+d}: both branch currents are counted first->second terminal')
        rep.ob('R01.sign', 'relation:KVL', sV * s_Vsrc == sB * s_read,
               f'constraint row B^T phi = {s_Vsrc:+d}·V with B[node1]={sB:+d}; reported voltage phi(node1)-phi(node2) and reported current {s_read:+d}·x')


def _readback_signs(prog):
    """(sign with which get_current returns the solution entry, sign of Q@Is in the RHS, sign of V in the RHS)"""
    s_read = s_rhs = s_v = None
    mm, cls = class_of(prog, SR.BP, 'NodalAnalysisBiasPointSolution')
    ev = new_ev(prog)
    t, _ = method_term(prog, ev, mm, cls, 'get_current', [A('id')])
    # the path on which the current is READ from the solved vector (whichever test selects it): +/- one entry of the solution vector
    signs = set()
    for _, leaf in paths_of(t):
        p = as_poly(leaf) if isinstance(leaf, (Poly, int)) else None
        if p is not None and p.single() is not None and len(p.single()[0]) == 1 and ('_voltage_source_currents' in repr(p.key()) or '_solution_vector' in repr(p.key())) \
                and 'get_voltage' not in repr(p.key()) and 'get_potential' not in repr(p.key()):
            signs.add(1 if p.single()[1][0] > 0 else -1)
    if len(signs) == 1: s_read = signs.pop()
    from . import incidence as INC
    rs = INC.rhs_signs(prog)
    if rs['I'] is not None and rs['QI'] is not None: s_rhs = rs['I'] * rs['QI']
    s_v = rs['V']
    return s_read, s_rhs, s_v


def currents(rep, prog):
    mm, cls = class_of(prog, SR.BP, 'NodalAnalysisBiasPointSolution')
    ev = new_ev(prog)
    t, st = method_term(prog, ev, mm, cls, 'get_current', [A('id')])
    src = ("self._voltage_source_currents[self._voltage_source_mapping[id]] if id in self._voltage_source_mapping.keys else ("
           "E.I if (abs(E.I) >= 0 and E.Y == 0) else ((-(E.I + self.get_voltage(id)/E.Z)) if abs(E.I) > 0 else self.get_voltage(id)/E.Z))")
    E = ev.getattr(ev.getitem(ev.getattr(A('self'), 'network', mm, 0), A('id')), 'element', mm, 0)
    sp = spec(ev, src, {'self': A('self'), 'id': A('id'), 'E': E}, mm)
    rep.ob('R01.current', 'get_current', compare_terms(t, sp), f'= {t!r:.300}', st, lhs=t, rhs=sp)
    # potential of the reference node is zero, others read from the potential block
    t, st = method_term(prog, ev, mm, cls, 'get_potential', [A('id')])
    sp = spec(ev, "0 if id == self.network.node_zero_label else self._potentials[self._node_mapping[id]]", {'self': A('self'), 'id': A('id')}, mm)
    rep.ob('R01.current', 'get_potential', compare_terms(t, sp), f'= {t!r:.200}', st, lhs=t, rhs=sp)
    m2, c2 = class_of(prog, 'Network.NodalAnalysis.solution', 'NodalAnalysisSolution')
    t, st = method_term(prog, new_ev(prog), m2, c2, 'get_power', [A('id')])
    sp = spec(ev, "self.get_voltage(id)*conj(self.get_current(id))", {'self': A('self'), 'id': A('id')}, m2)
    rep.ob('R01.current', 'get_power', compare_terms(t, sp), f'= {t!r:.160}', st)
