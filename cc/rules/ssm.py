"""Shared analysis of the state-space builder on E1 normal forms (used by C10, C11, C12).

state_space_matrices is evaluated once with symbolic mappers; its four results are converted to non-commutative normal forms whose
base atoms are classified by CONTENT (what the term computes), never by the names of locals, nested functions or helpers:
    A_tilde    the call of nodal_analysis_coefficient_matrix (under .real)
    DQ         the horizontal block [Delta^T | QL] containing the incidence array built over c_values
    LAMBDA     a diagonal form over c_values.values() then l_values.values()   (cc.diagalg)
    QS         the remaining column selection of the source incidence block
"""
from __future__ import annotations
from ..api import A, call
from ..terms import tkey, Poly
from ..ncalg import KeyNC, NC, NCEval, parse_expr
from ..diagalg import dv, show as dshow, X
from .incidence import typed_network_evaluator, NA, SS

SPEC = {
    'A': "invLambda @ S_",
    'B': "-invLambda @ S_ @ DQ.T @ inv(A_tilde) @ QS",
    'C': "inv(A_tilde) @ DQ @ S_",
    'D': "(inv(A_tilde) - inv(A_tilde) @ DQ @ S_ @ DQ.T @ inv(A_tilde)) @ QS",
}
S_EXPR = "inv(DQ.T @ inv(A_tilde) @ DQ)"


def _segkind(seg):
    f, src = seg
    r = repr(src)
    which = 'c' if "'c_values'" in r else ('l' if "'l_values'" in r else '?')
    vals = "'values'" in r
    return which, vals, f


def analyse(prog):
    cache = prog.__dict__.setdefault('_ssm_cache', {})
    if 'r' in cache: return cache['r']
    out = {'site': '', 'roles': {}, 'forms': None}
    cache['r'] = out
    from ..prog import params_of
    ev = typed_network_evaluator(prog, [(NA, 'nodal_analysis_coefficient_matrix'), (NA, 'source_incidence_matrix')])
    try:
        f = prog.func(SS, 'state_space_matrices')
    except KeyError:
        out['undecided'] = 'state_space_matrices not found'; return out
    out['site'] = f.site
    t = call(ev, f, [A(p) for p in params_of(f.node)[0]])
    out['ev'] = ev
    if not isinstance(t, (tuple, list)) or len(t) != 4:
        out['undecided'] = f'state_space_matrices does not return four matrices: {t!r:.120}'; return out
    kn = KeyNC()
    # two passes: the first finds the atom of the DC matrix so that it can be declared symmetric
    for x in t: kn.of(tkey(x))
    sym_keys = {repr(k) for nm, k in kn.names.items() if isinstance(k, tuple) and k[:2] == ('call', ('fn', 'nodal_analysis_coefficient_matrix'))}
    kn = KeyNC(lambda key: repr(key) in sym_keys)
    forms = [kn.of(tkey(x)) for x in t]
    out['forms'] = dict(zip('ABCD', forms)); out['kn'] = kn
    roles = out['roles']
    for nm, key in kn.names.items():
        r = repr(key)
        if isinstance(key, tuple) and key[:2] == ('call', ('fn', 'nodal_analysis_coefficient_matrix')):
            roles.setdefault('A_tilde', []).append(nm)
        elif isinstance(key, tuple) and key[:2] in (('opq', 'hcat'), ('opq', 'vcat')) and "'build'" in r and "'c_values'" in r and "'node1'" in r:
            roles.setdefault('DQ', []).append(nm)
        elif isinstance(key, tuple) and key[:1] == ('imag',) and "('fn', 'nodal_analysis_coefficient_matrix')" in r and 'matmul' not in r:
            roles.setdefault('A_tilde', []).append(nm); out['imag'] = True
        elif dv(key) is not None and dv(key)[0] in ('mat', 'bad'):
            roles.setdefault('LAMBDA', []).append(nm)
        elif "'source_incidence_matrix'" in r or "'l_values'" in r:
            roles.setdefault('QS', []).append(nm)
        else:
            roles.setdefault('other', []).append(nm)
    out['real'] = {nm for nm in roles.get('A_tilde', []) if nm in kn.realed}
    return out


def spec_forms(an):
    """(spec NC forms by name, detail) from the identified atoms, or (None, why)"""
    roles, kn = an['roles'], an['kn']
    for need in ('A_tilde', 'DQ', 'LAMBDA', 'QS'):
        if len(roles.get(need, [])) != 1:
            return None, f"base matrix {need} not identified uniquely ({roles.get(need, [])}); atoms: " + ', '.join(f'{n}={repr(k)[:50]}' for n, k in kn.names.items())
    at, dq, lam, qs = (roles[k][0] for k in ('A_tilde', 'DQ', 'LAMBDA', 'QS'))
    sym = set(kn.sym)
    DQ = NC.atom(dq)
    if kn.names[dq][:2] == ('opq', 'vcat'): DQ = DQ.T(sym)
    d = dv(kn.names[lam])
    inverted = _is_inverse_lambda(d)
    if inverted is None: return None, f'diagonal matrix {dshow(d)} is neither Lambda nor its inverse'
    invL = NC.atom(lam) if inverted else NC.atom(lam).inv(sym)
    spv = NCEval(symmetric=sym)
    spv.env = {'DQ': DQ, 'A_tilde': NC.atom(at), 'QS': NC.atom(qs), 'invLambda': invL}
    spv.env['S_'] = spv.ev(parse_expr(S_EXPR))
    return {name: spv.ev(parse_expr(src)) for name, src in SPEC.items()}, ''


def _is_inverse_lambda(d):
    """True: diag(-1/C..., 1/L...), False: diag(-C..., L...), None: neither"""
    if d is None or d[0] != 'mat' or len(d[1]) != 2: return None
    (w1, v1, f1), (w2, v2, f2) = _segkind(d[1][0]), _segkind(d[1][1])
    if (w1, w2) != ('c', 'l') or not (v1 and v2): return None
    if f1 == X.inv().neg() and f2 == X.inv(): return True
    if f1 == X.neg() and f2 == X: return False
    return None


def lambda_blocks(an):
    """[(which dict, iterates values?, element function)] of the diagonal matrix, and whether it is already inverted"""
    roles, kn = an['roles'], an.get('kn')
    if kn is None or len(roles.get('LAMBDA', [])) != 1: return None, None
    d = dv(kn.names[roles['LAMBDA'][0]])
    if d[0] == 'bad': return [], d
    return [_segkind(s) for s in d[1]], d
