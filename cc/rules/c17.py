"""C17 -- loading describes exactly what was written, without side effects."""
from __future__ import annotations
import ast
from ..api import A, spec, call, call_ref
from ..terms import Evaluator, Poly, Rec, Cond, Opq, Comp, tkey, paths_of, term_equal, has_opaque, same, compare_terms, RAISE
from ..prog import params_of
from ..paths import paths, always_raises
from ..report import AnalysisError
from .c20 import effects_of

LD = 'Network.loaders'
CDL = 'Circuit.dump_load'
DL = 'dump_load'


def run(rep, prog, tier):
    from .hidden import no_hidden_state
    rep.rule('R17.state', 'no hidden state in the anchored modules: no function writes a module-level object, no caching decorator / cached property')
    no_hidden_state(rep, 'R17.state', prog, ['Network/loaders.py', 'dump_load.py', 'Circuit/dump_load.py'])
    rep.rule('R17.sig', 'each loader-table entry passes every keyword exactly once to a factory that accepts it (explicit keywords vs keys left in **kwargs; id->name; id/nodes for components)')
    rep.rule('R17.pure', 'no loader / converter writes to the description it is given (effect analysis)')
    rep.rule('R17.formula', 'Cartesian = real + j imag; polar = abs (cos phase + j sin phase); degree phases are converted by pi/180 before use')
    rep.rule('R17.sym', 'dictify_all_complex_values recurses into dicts and lists and applies the leaf converter, mirroring undictify_all_complex_values')
    rep.rule('R17.errors', 'generate_component maps each missing field / unknown type to its typed error on every path; handlers re-raise')
    signatures(rep, prog)
    purity(rep, prog)
    formulas(rep, prog)
    symmetry(rep, prog)
    errors(rep, prog)


# ---------------------------------------------------------------------------------------------- R17.sig
def _factory_params(prog, m, e):
    r = prog.resolve_expr(m, e)
    if r and r[0] == 'func':
        pos, _, vararg, kwarg, kwonly, _ = params_of(r[2])
        return set(pos + kwonly), kwarg is not None, r[2].name
    return None, None, None


def signatures(rep, prog):
    """every entry of the network loader table, read off its VALUE (a factory, a lambda, a closure of a helper, a partial, a callable object):
    applied to the keywords of a description entry it builds an element whose name is the entry's name -- every keyword reaches the factory
    exactly once (a TypeError of the analysed call is decided)"""
    from ..terms import Raised
    m = prog.mod(LD); em = prog.mod('Network.elements')
    entries = prog.table(LD, 'network_branch_translators')
    if len(entries) < 8:
        raise AnalysisError('network_branch_translators table shrank below the confirmed size')
    values = prog.module_namespace(m).get('network_branch_translators')
    cands = []
    for nm, d in em.defs.items():
        if isinstance(d, ast.FunctionDef) and d.returns is not None and 'Element' in ast.unparse(d.returns):
            for p_ in params_of(d)[0] + params_of(d)[4]:
                if p_ not in cands and p_ != 'name': cands.append(p_)
    def build(hv, keys):
        ev = Evaluator(prog); ev.opaque_fns.add((LD, 'to_complex')); ev._try_depth += 1
        kw = {k: A('v_' + k) for k in keys}; kw['name'] = A('the_name')
        try: return ev.apply(hv, [], kw, m, 1), None
        except Raised as ex: return None, (ex.kind, ex.detail)
    for key, kn, vn in entries:
        site = prog.site(m, vn)
        hv = values.get(key) if isinstance(values, dict) else None
        if hv is None:
            r = prog.resolve_expr(m, vn) if isinstance(vn, (ast.Name, ast.Attribute)) else None
            hv = Evaluator(prog).ref_of(r) if r else None
        if hv is None:
            rep.ob('R17.sig', f'network:{key}', None, 'entry value not followed', site); continue
        keys = list(cands); t = err = None
        for _ in range(len(cands) + 1):
            t, err = build(hv, keys)
            if err is None or err[0] != 'TypeError' or 'unexpected keyword argument' not in err[1]: break
            bad = err[1].split("'")[1] if "'" in err[1] else None
            if bad not in keys: break
            keys.remove(bad)
        if err is not None:
            rep.ob('R17.sig', f'network:{key}', False if err[0] == 'TypeError' else None, f'applied to the keywords {keys + ["name"]}: raises {err[0]} ({err[1]})', site); continue
        named = isinstance(t, Rec) and term_equal(t.f.get('name'), A('the_name'))
        followed = isinstance(t, Rec) and 'missing-arg' not in repr(tkey(t)) and len(keys) < len(cands)
        rep.ob('R17.sig', f'network:{key}', (True if named else False) if followed else None,
               (f'builds {t.cls}(type={t.f.get("type")!r}) named by the entry from the keywords {keys}' if followed and named else f'applied to {keys + ["name"]}: {t!r:.160}'), site)
    # one literal entry through load_network: id -> name, N1 / N2 -> first / second terminal, the element of the kind registered under `type`
    try:
        f = prog.func(LD, 'load_network')
    except KeyError:
        f = None
    if f is None:
        rep.ob('R17.sig', 'network:entry_to_branch', None, 'load_network not found')
    else:
        ev = Evaluator(prog); ev.raise_lookup_errors = True
        entry = {'N1': A('n_first'), 'N2': A('n_second'), 'id': A('the_id'), 'type': 'resistor', 'R': A('the_R')}
        keys_before = sorted(entry)
        t = call(ev, f, [[entry]])
        br = t.f.get('branches') if isinstance(t, Rec) else None
        b0 = br[0] if isinstance(br, list) and len(br) == 1 else None
        ok = okt = None
        if isinstance(b0, Rec):
            el = b0.f.get('element')
            ok = isinstance(el, Rec) and term_equal(el.f.get('name'), A('the_id')) and el.f.get('type') == 'resistor'
            okt = term_equal(b0.f.get('node1'), A('n_first')) and term_equal(b0.f.get('node2'), A('n_second'))
        rep.ob('R17.sig', 'network:entry_to_branch', ok, f'entry -> {b0!r:.160}', f.site)
        rep.ob('R17.sig', 'network:terminal-order', okt, f'Branch(node1={b0.f.get("node1") if isinstance(b0, Rec) else None!r:.40}, node2={b0.f.get("node2") if isinstance(b0, Rec) else None!r:.40})', f.site)
    order_invariance(rep, prog)
    # circuit components
    cm = prog.mod(CDL)
    ents = prog.table(CDL, 'circuit_component_translators')
    for key, kn, vn in ents:
        params, has_kw, fname = _factory_params(prog, cm, vn)
        site = prog.site(cm, vn)
        if params is None:
            rep.ob('R17.sig', f'circuit:{key}', None, f'{ast.unparse(vn)} not resolved', site); continue
        ok = {'id', 'nodes'} <= params
        # the factory must construct the kind it is registered under
        from .translate import component_kinds
        target = prog.resolve_expr(cm, vn)[2]
        kinds = {k_ for k_, info in component_kinds(prog).items() if info['node'] is target}
        ok2 = kinds == {key}
        if not kinds: ok2 = None
        rep.ob('R17.sig', f'circuit:{key}', (ok and ok2) if ok2 is not None else None, f"{fname}(id, nodes, …) constructs kind {sorted(kinds)}" + ('' if ok and ok2 else ' -- MISMATCH with its table key'), site)


def order_invariance(rep, prog):
    """the order of the keys of a description entry carries no meaning (JSON / YAML mappings): the element built from an entry is the same
    term for every insertion order of its value keys.  The value keys of a kind are found by probing the VALUE of its table entry with the
    parameter names of the element factories (a TypeError of the analysed call is decided); the conversion of the single values is opaque."""
    import itertools
    from ..terms import Raised, Closure
    m = prog.mod(LD); em = prog.mod('Network.elements')
    ns = prog.module_namespace(m)
    values = ns.get('network_branch_translators')
    cands = []
    for nm, d in em.defs.items():
        if isinstance(d, ast.FunctionDef) and d.returns is not None and 'Element' in ast.unparse(d.returns):
            for p_ in params_of(d)[0] + params_of(d)[4]:
                if p_ not in cands and p_ != 'name': cands.append(p_)
    if not isinstance(values, dict) or not cands:
        rep.ob('R17.sig', 'network:key-order', None, 'loader table / factories not followed'); return
    def build(hv, keys):
        ev = Evaluator(prog); ev.opaque_fns.add((LD, 'to_complex')); ev._try_depth += 1
        kw = {k: A('v_' + k) for k in keys}; kw['name'] = A('the_name')
        kw = dict(sorted(kw.items(), key=lambda kv: (list(keys) + ['name']).index(kv[0])))
        try: return ev.apply(hv, [], kw, m, 1), None
        except Raised as ex: return None, (ex.kind, ex.detail)
    n = 0
    for key, hv in values.items():
        if not isinstance(key, str): continue
        site = next((prog.site(m, vn) for k_, kn, vn in prog.table(LD, 'network_branch_translators') if k_ == key), '')
        keys = list(cands)
        t = err = None
        for _ in range(len(cands) + 1):
            t, err = build(hv, keys)
            if err is None or err[0] != 'TypeError' or 'unexpected keyword argument' not in err[1]: break
            bad = err[1].split("'")[1] if "'" in err[1] else None
            if bad not in keys: break
            keys.remove(bad)
        if err is not None or not isinstance(t, Rec):
            continue                    # kinds whose construction is not followed are decided by the signature rule above
        if 'missing-arg' in repr(tkey(t)) or len(keys) == len(cands):
            rep.ob('R17.sig', f'network:{key}:key-order', None, f'the keyword arguments reaching the factory are not followed: {t!r:.120}', site); n += 1; continue
        if len(keys) < 2: continue      # nothing to permute
        n += 1
        orders = list(itertools.permutations(keys)) if len(keys) <= 3 else [tuple(keys), tuple(reversed(keys))]
        base = tkey(t); diff = None
        for o in orders[1:]:
            t2, e2 = build(hv, list(o))
            if e2 is not None or tkey(t2) != base: diff = (o, t2 if e2 is None else e2); break
        rep.ob('R17.sig', f'network:{key}:key-order', diff is None, (f'the same element for every order of the keys {keys}' if diff is None else
               f'keys written in the order {list(diff[0])} give {diff[1]!r:.120}, in the order {keys} {t!r:.120}: a value lands on another parameter depending on the order of the keys'), site)
    if n == 0: rep.ob('R17.sig', 'network:key-order', None, 'no kind with two value keys was followed')


# ---------------------------------------------------------------------------------------------- R17.pure
PURE_SCOPE = (f'{LD}::', f'{DL}::', f'{CDL}::')


def purity(rep, prog):
    eff = effects_of(prog)
    n = 0
    for q, f in sorted(prog.funcs.items()):
        if not q.startswith(PURE_SCOPE) or f.parent is not None: continue
        n += 1
        sm = eff.summ[q]
        muts = {p: s for p, s in sm.mut.items() if p != 'self'}
        private_cls = f.cls is not None and getattr(f.cls, 'name', '').startswith('_') and not getattr(f.cls, 'name', '').startswith('__')
        if (getattr(f.node, 'name', '').startswith('_') and not getattr(f.node, 'name', '').startswith('__')) or private_cls:
            rep.ob('R17.pure', q, True, 'private helper (its effects are accounted for in the summaries of its public callers)', f.site); continue
        if muts:
            for p, s in sorted(muts.items()):
                rep.ob('R17.pure', f'{q}({p})', False, f'writes to the object passed as `{p}`: {s}', f.site)
        else:
            rep.ob('R17.pure', q, True, 'does not write to its arguments', f.site)
    if n < 15:
        raise AnalysisError(f'only {n} loader functions found')
    # a cached loader returns the first answer for a description that changed in the meantime
    from ..effects import cache_decorators
    caches = [c for c in cache_decorators(prog) if c[0].startswith(PURE_SCOPE)]
    for q, d, site in caches:
        rep.ob('R17.pure', f'{q}@cache', False, f'loader is wrapped in @{d}: a second load of a changed description returns the cached first result', site)
    if not caches:
        rep.ob('R17.pure', 'no-cached-loader', True, 'no loader / converter keeps results across calls')


# ---------------------------------------------------------------------------------------------- R17.formula
def formulas(rep, prog):
    """conversions decided on LITERAL dictionaries of symbolic numbers: which notation a dictionary is in is found by the analysed code's own
    tests / try-except chains, which the evaluator follows"""
    from ..terms import RAISE
    f = prog.func(LD, 'to_complex')
    re_, im_, r_, ph_ = A('re'), A('im'), A('r'), A('ph')
    env = {'re': re_, 'im': im_, 'r': r_, 'ph': ph_}
    for deg, key in ((False, 'radian'), (True, 'degree')):
        ev = Evaluator(prog); ev.raise_lookup_errors = True
        t = call(ev, f, [{'real': re_, 'imag': im_}], {'degree': deg})
        cart = spec(ev, "re + 1j*im", env, f.mod)
        rep.ob('R17.formula', f'to_complex:cartesian:{key}', compare_terms(t, cart) if t is not RAISE else False, f'= {t!r:.160}', f.site, lhs=t, rhs=cart)
        ev = Evaluator(prog); ev.raise_lookup_errors = True
        t = call(ev, f, [{'abs': r_, 'phase': ph_}], {'degree': deg})
        ph = "ph*pi/180" if deg else "ph"
        sp = spec(ev, f"r*(cos({ph}) + 1j*sin({ph}))", env, f.mod)
        rep.ob('R17.formula', f'to_complex:polar:{key}', compare_terms(t, sp) if t is not RAISE else False, f'= {t!r:.200}', f.site, lhs=t, rhs=sp)
    # undictify_complex_values: three notations
    g = prog.func(DL, 'undictify_complex_values')
    notations = {
        'real-imag': ({'real': re_, 'imag': im_}, "re + 1j*im"),
        'abs-phase': ({'abs': r_, 'phase': ph_}, "r*(cos(ph) + 1j*sin(ph))"),
        'abs-phase_deg': ({'abs': r_, 'phase_deg': ph_}, "r*(cos(ph*pi/180) + 1j*sin(ph*pi/180))"),
    }
    for name, (val, sp_src) in notations.items():
        # a notation is a SET of fields: both insertion orders of the dictionary must convert alike (yaml.dump sorts keys, json keeps them)
        for order, v in (('', val), (':fields-reversed', dict(reversed(list(val.items()))))):
            ev = Evaluator(prog); ev.raise_lookup_errors = True
            t = call(ev, g, [{'k': dict(v)}])
            got = t.get('k') if isinstance(t, dict) else None
            sp = spec(ev, sp_src, env, g.mod)
            if got is None:
                rep.ob('R17.formula', f'undictify:{name}{order}', None, f'conversion of this notation not followed: {t!r:.120}', g.site)
            elif isinstance(got, dict):
                rep.ob('R17.formula', f'undictify:{name}{order}', False, f'a dictionary with the fields {list(v)} is not recognised as a complex number (left as {got!r:.80})', g.site)
            else:
                rep.ob('R17.formula', f'undictify:{name}{order}', compare_terms(got, sp), f'= {got!r:.160}', g.site, lhs=got, rhs=sp)
    # dictify leaf: complex -> {'real','imag'}
    h = prog.func(DL, 'dictify_complex_values')
    ev = Evaluator(prog)
    t = call(ev, h, [{'k': A('z')}])
    got = t.get('k') if isinstance(t, dict) else None
    ok = None; shown = got
    if got is not None:
        want_re, want_im = spec(ev, "real(z)", {'z': A('z')}, h.mod), spec(ev, "imag(z)", {'z': A('z')}, h.mod)
        leaves = [l for _, l in paths_of(got)]
        dicts = [l for l in leaves if isinstance(l, dict)]
        ok = any(set(l) == {'real', 'imag'} and term_equal(l['real'], want_re) and term_equal(l['imag'], want_im) for l in dicts)
        if not ok and not dicts: ok = None
    rep.ob('R17.formula', 'dictify:leaf', ok, f'complex -> {shown!r:.160}', h.site)


def _after_first_try(fn: ast.FunctionDef):
    """function made of the statements that follow the first try statement (the polar branch of to_complex)"""
    for i, st in enumerate(fn.body):
        if isinstance(st, ast.Try):
            rest = fn.body[i + 1:]
            if not rest: return None
            new = ast.FunctionDef(name=fn.name + '_polar', args=fn.args, body=rest, decorator_list=[], returns=None, type_comment=None, lineno=fn.lineno, col_offset=0)
            return ast.fix_missing_locations(new)
    return None


def _leaf_conversion(prog, g, value: dict):
    """evaluate the body of the `for key, value in data.items()` loop with `value` bound to a concrete dict of atoms; return what is stored"""
    loop = next((n for n in g.node.body if isinstance(n, ast.For)), None)
    if loop is None:
        # non-mutating rewrite: look for a helper applied per value -- evaluate the function on {'k': value} and read back 'k'
        ev = Evaluator(prog)
        t = call(ev, g, [{'k': dict(value)}])
        if isinstance(t, dict) and 'k' in t: return t['k']
        if isinstance(t, Comp) and t.kind == 'dict': return None
        return None
    ev = Evaluator(prog)
    env = {'__parent__': None, 'data': {}, 'key': 'k', 'value': dict(value)}
    for nm, node in zip(['key', 'value'], loop.target.elts if isinstance(loop.target, ast.Tuple) else []):
        if isinstance(node, ast.Name): env[node.id] = env[nm]
    ev.block(loop.body, env, g.mod, 1)
    d = env.get('data')
    if isinstance(d, dict) and 'k' in d: return d['k']
    if isinstance(d, Opq) and d.k and d.k[0] == 'mutated' and d.k[1] == 'setitem': return d.k[4]
    return None


# ---------------------------------------------------------------------------------------------- R17.sym
def symmetry(rep, prog):
    """both recursive converters reach every complex value of a nested description: inside nested dictionaries, inside lists, inside dictionaries
    inside lists, at the top level -- decided by evaluating them on one nested literal whose leaves are symbolic numbers"""
    m = prog.mod(DL)
    try:
        d = prog.func(DL, 'dictify_all_complex_values'); u = prog.func(DL, 'undictify_all_complex_values')
    except KeyError:
        rep.ob('R17.sym', 'dictify_all/undictify_all', None, 'functions not found'); return
    z, re_, im_ = A('z'), A('re'), A('im')
    C = lambda: {'real': re_, 'imag': im_}
    def run(f, arg):
        ev = Evaluator(prog, depth_limit=60); ev.raise_lookup_errors = True; ev.atom_types = {'z': 'complex', 're': 'float', 'im': 'float'}
        return ev, call(ev, f, [arg])
    ev, td = run(d, {'a': {'b': z}, 'l': [z, {'c': z}], 'x': z, 'n': re_})
    evu, tu = run(u, {'a': {'b': C()}, 'l': [C(), {'c': C()}], 'x': C(), 'n': re_})
    want_d = {'real': spec(ev, 'real(z)', {'z': z}, m), 'imag': spec(ev, 'imag(z)', {'z': z}, m)}
    want_u = spec(evu, 're + 1j*im', {'re': re_, 'im': im_}, m)
    def at(t, path):
        for k in path:
            if isinstance(t, dict) and k in t: t = t[k]
            elif isinstance(t, list) and isinstance(k, int) and k < len(t): t = t[k]
            else: return None
        return t
    eq_d = lambda x: isinstance(x, dict) and set(x) == {'real', 'imag'} and term_equal(x['real'], want_d['real']) and term_equal(x['imag'], want_d['imag'])
    eq_u = lambda x: x is not None and not isinstance(x, dict) and term_equal(x, want_u)
    for facet, path, text in (('dict', ('a', 'b'), 'inside a nested dictionary'), ('list', ('l', 0), 'inside a list'), ('list-dict', ('l', 1, 'c'), 'inside a dictionary inside a list'),
                              ('leaf', ('x',), 'at the top level')):
        for name, t, ok_fn, site in (('dictify', td, eq_d, d.site), ('undictify', tu, eq_u, u.site)):
            got = at(t, path)
            ok = ok_fn(got)
            rep.ob('R17.sym', f'{name}:facet:{facet}', True if ok else (None if got is None or has_opaque(got) else False),
                   f'a complex value {text} is converted' if ok else f'a complex value {text} comes out as {got!r:.100}: it ' + ('reaches the serialiser unconverted and cannot be written' if name == 'dictify' else 'is not restored'), site)
    for name, t in (('dictify', td), ('undictify', tu)):
        got = at(t, ('n',))
        rep.ob('R17.sym', f'{name}:plain-number', True if (got is not None and term_equal(got, re_)) else (None if got is None else False), f'a real number passes through unchanged ({got!r:.40})', d.site)
    # default processors wired into serialize / deserialize
    for fn, param, want in (('serialize', 'dict_processor', 'dictify_all_complex_values'), ('deserialize', 'dict_preprocessor', 'undictify_all_complex_values')):
        f = prog.func(DL, fn)
        pos, defaults, _, _, _, _ = params_of(f.node)
        dmap = dict(zip(pos[len(pos) - len(defaults):], defaults))
        got = ast.unparse(dmap[param]) if param in dmap else None
        rep.ob('R17.sym', f'{fn}:{param}', got == want, f'default {param} = {got}', f.site)
    # format tables agree
    ser = {k for k, _, _ in prog.table(DL, 'serializers')}; des = {k for k, _, _ in prog.table(DL, 'deserializers')}
    rep.ob('R17.sym', 'format-tables', ser == des, f'serializers {sorted(ser)} / deserializers {sorted(des)}', prog.site(m, m.defs['serializers']))


# ---------------------------------------------------------------------------------------------- R17.errors
def errors(rep, prog):
    """what generate_component does with a malformed description, decided by evaluating it on literal descriptions: a missing field, an
    unknown kind and a value dictionary the factory does not accept each END in the documented exception (the analysed program's own
    try/except statements are followed); the caller's description keeps all its fields"""
    from ..terms import RAISE, Rec
    f = prog.func(CDL, 'generate_component')
    full = lambda: {'id': A('the_id'), 'type': 'resistor', 'nodes': A('the_nodes'), 'value': {'R': A('the_R')}}
    want = {'id': 'UnidentifiedComponent', 'value': 'IncorrectComponentInformation', 'type': 'IncorrectComponentInformation', 'nodes': 'IncorrectComponentInformation'}
    def run(desc):
        ev = Evaluator(prog); ev.raise_lookup_errors = True
        r = call(ev, f, [desc])
        return r, ev.last_raise
    for k, exc in want.items():
        d = full(); d.pop(k)
        r, lr = run(d)
        ok = (r is RAISE and lr == exc)
        rep.ob('R17.errors', f'generate_component:{k}', True if ok else (False if r is RAISE or isinstance(r, Rec) else None),
               f'missing {k} -> {lr if r is RAISE else repr(r)[:80]}', f.site)
    d = full(); d['type'] = 'no_such_kind'
    r, lr = run(d)
    rep.ob('R17.errors', 'generate_component:<kind>', True if (r is RAISE and lr == 'UnknownCircuitComponent') else (False if r is RAISE or isinstance(r, Rec) else None),
           f'unknown kind -> {lr if r is RAISE else repr(r)[:80]}', f.site)
    d = full(); d['value'] = {'no_such_parameter': A('x')}
    r, lr = run(d)
    rep.ob('R17.errors', 'generate_component:<values>', True if (r is RAISE and lr == 'IncorrectComponentInformation') else (False if r is RAISE or isinstance(r, Rec) else None),
           f'value keys the factory does not accept -> {lr if r is RAISE else repr(r)[:80]}', f.site)
    # a complete description yields the component, and the caller's dictionary is left as it was
    d = full(); keys_before = sorted(d)
    r, lr = run(d)
    okc = isinstance(r, Rec) and r.cls == 'Component' and r.f.get('type') == 'resistor'
    rep.ob('R17.errors', 'generate_component:well-formed', True if okc else (None if r is not RAISE else False), f'-> {r!r:.100}', f.site)
    rep.ob('R17.errors', 'generate_component:copy-before-pop', sorted(d) == keys_before and sorted(d.get('value', {})) == ['R'],
           'description copied before keys are popped' if sorted(d) == keys_before else f'keys are popped from the caller\'s description (left with {sorted(d)})', f.site)
