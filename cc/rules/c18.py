"""C18 -- displayed numbers: ONLY the table / structural part (SI prefixes, exponent multiple of three by construction, sign glyphs, saturation first).

The main clause (half-unit accuracy of the digit string for every binary64 value) is string arithmetic on run-time values and is NOT decided."""
from __future__ import annotations
import ast
from ..api import A, spec
from ..terms import Evaluator, Poly, Rec, Cond, Opq, Closure, tkey, paths_of, term_equal, has_opaque, compare_terms, as_poly
from ..paths import paths
from ..report import AnalysisError

UT = 'Utils'
DSP = 'SimpleCircuit.Display'
SI = {-15: {'f'}, -12: {'p'}, -9: {'n'}, -6: {'u', 'μ', 'µ'}, -3: {'m'}, 3: {'k'}, 6: {'M'}, 9: {'G'}, 12: {'T'}, 15: {'P'}}
UNIT_OF = {'print_resistance': 'Ω', 'print_conductance': 'S', 'print_impedance': 'Ω', 'print_capacitance': 'F', 'print_inductance': 'H'}


def _int_keys_dicts(tree):
    for n in ast.walk(tree):
        if isinstance(n, ast.Dict) and n.keys and all(isinstance(k, (ast.Constant, ast.UnaryOp)) for k in n.keys):
            keys = []
            ok = True
            for k in n.keys:
                try: v = ast.literal_eval(k)
                except Exception: ok = False; break
                if not isinstance(v, int) or isinstance(v, bool): ok = False; break
                keys.append(v)
            vals = [v.value if isinstance(v, ast.Constant) else None for v in n.values]
            if ok and all(isinstance(v, str) for v in vals): yield n, dict(zip(keys, vals))


def _check_table(d):
    bad = [(e, s) for e, s in d.items() if e % 3 == 0 and e in SI and s not in SI[e]]
    unknown = [(e, s) for e, s in d.items() if e % 3 == 0 and e not in SI and e != 0]
    off = [(e, s) for e, s in d.items() if e % 3 != 0 and not (e, s) in ((-1, 'c'), (-2, 'c'), (1, 'da'), (2, 'h'), (-1, 'd'))]
    ok = not bad and not unknown and not off
    return ok, (f'{d}' if ok else f'wrong SI letter(s): {bad + unknown + off} in {d}')


def _as_int_table(v):
    """{int exponent: letter} of an evaluated dictionary term, else None"""
    from ..terms import Poly as _P
    if not isinstance(v, dict) or not v: return None
    out = {}
    for k, x in v.items():
        kk = k.v if hasattr(k, 'v') else k
        if isinstance(kk, _P) and kk.real_const() is not None and kk.real_const().denominator == 1: kk = int(kk.real_const())
        if isinstance(kk, bool) or not isinstance(kk, int) or not isinstance(x, str): return None
        out[kk] = x
    return out


def si_tables(prog):
    """(key, ok, detail, site): the prefix tables IN USE -- the default table of each formatter class and the table every public display
    helper hands to the formatter it builds (read off the evaluated records, wherever the table literal is written)"""
    from ..terms import Evaluator, Rec, Opq, paths_of
    from ..api import A
    from ..prog import params_of
    out = []
    count = 0
    um = prog.mod(UT)
    for cname in ('ScientificFloat', 'ScientificComplex'):
        c = um.defs.get(cname)
        if not isinstance(c, ast.ClassDef):
            out.append((f'default:{cname}', None, 'class not found', '')); continue
        dv = next((f for f in prog.dataclass_fields(um, c) if f[0] == 'exp_prefixes'), None)
        tab = _as_int_table(Evaluator(prog).ev(dv[1], {'__parent__': None}, dv[2], 1)) if dv and dv[1] is not None else None
        if tab is None:
            out.append((f'default:{cname}', None, 'default prefix table not evaluated', prog.site(um, c))); continue
        ok, detail = _check_table(tab); count += 1
        out.append((f'default:{cname}', ok, detail, prog.site(um, c)))
    m = prog.mod(DSP)
    for fname, fn in sorted(m.defs.items()):
        if not isinstance(fn, ast.FunctionDef) or fname.startswith('_'): continue
        ev = Evaluator(prog)
        try:
            t = ev.call_fn(fn, m, [A(p) for p in params_of(fn)[0]], {}, {'__parent__': None}, 1)
        except Exception:
            continue
        recs = []
        def find(x, d=0):
            if d > 8: return
            if isinstance(x, Rec) and x.cls in ('ScientificComplex', 'ScientificFloat'): recs.append(x)
            if isinstance(x, Rec):
                for v in x.f.values(): find(v, d + 1)
            elif isinstance(x, Opq):
                for v in x.k: find(v, d + 1)
            elif isinstance(x, (list, tuple)):
                for v in x: find(v, d + 1)
        for _, leaf in paths_of(t): find(leaf)
        tabs = []
        for r in recs:
            tb = _as_int_table(r.f.get('exp_prefixes'))
            if tb is not None and tb not in tabs: tabs.append(tb)
        for i, tb in enumerate(tabs):
            ok, detail = _check_table(tb); count += 1
            out.append((f'helper:{fname}' + (f'#{i + 1}' if len(tabs) > 1 else ''), ok, detail, f'{m.rel}:{fn.lineno}'))
    if count < 8:
        out.append(('tables:count', None, f'only {count} prefix tables in use were evaluated (13 confirmed)', ''))
    # units of the helpers
    m = prog.mod(DSP)
    from ..terms import Evaluator, Rec, Opq, paths_of
    from ..api import A, call
    for fname, unit in UNIT_OF.items():
        fn = m.defs.get(fname)
        if not isinstance(fn, ast.FunctionDef):
            out.append((f'unit:{fname}', None, 'helper not found', '')); continue
        # the value the helper formats: ScientificComplex / ScientificFloat record (however it is reached: directly or through a shared helper)
        ev = Evaluator(prog)
        from ..prog import params_of
        t = ev.call_fn(fn, m, [A(p) for p in params_of(fn)[0]], {}, {'__parent__': None}, 1)
        recs = []
        def find(x, d=0):
            if d > 6: return
            if isinstance(x, Rec) and x.cls in ('ScientificComplex', 'ScientificFloat'): recs.append(x)
            elif isinstance(x, Rec):
                for v in x.f.values(): find(v, d + 1)
            elif isinstance(x, Opq):
                for v in x.k: find(v, d + 1)
            elif isinstance(x, (list, tuple)):
                for v in x: find(v, d + 1)
        for _, leaf in paths_of(t): find(leaf)
        units = sorted({r.f.get('unit') for r in recs if isinstance(r.f.get('unit'), str)})
        ok = (units == [unit]) if recs and all(isinstance(r.f.get('unit'), str) for r in recs) else None
        out.append((f'unit:{fname}', ok, f'unit = {units}', f'{m.rel}:{fn.lineno}'))
    return out


def polar_rule(prog):
    """(key, verdict, detail, site): in polar mode the angle is left out only under a test on the angle itself.  Read off the decision tree of
    __str__ with self.polar fixed to True: leaves whose text lacks the angle glyph are the suppressing paths; their path conditions may
    mention the angle (and the deg flag) only."""
    from ..terms import paths_of as _po, Opq as _Opq
    m = prog.mod(UT); cls = m.defs.get('ScientificComplex')
    out = []
    if not isinstance(cls, ast.ClassDef): return [('polar', None, 'ScientificComplex not found', '')]
    mem = prog.find_member(m, cls, '__str__')
    fn = mem[1]; site = prog.site(mem[0], fn)
    ev = Evaluator(prog); ev.self_class = (m, cls)
    ev.stores[('self', 'polar')] = True
    t = ev.call_fn(fn, mem[0], [A('self')], {}, {'__parent__': None}, 1)
    paths = _po(t)
    def has_angle(leaf):
        r = repr(tkey(leaf))
        return '∠' in r and "('.', 'self', 'angle')" in r
    sup = [(pc, l) for pc, l in paths if not has_angle(l)]
    shown = [(pc, l) for pc, l in paths if has_angle(l)]
    if not shown: return [('polar', None, f'no path of the polar rendering shows the angle: {t!r:.120}', site)]
    if not sup: return [('polar', None, 'no angle-suppressing path found', site)]
    import re
    for i, (pc, leaf) in enumerate(sup):
        reads = set()
        for g, _ in pc:
            reads |= set(re.findall(r"\('\.', 'self', '(\w+)'\)", g))
        ok = reads <= {'angle', 'deg'} and bool(reads)
        out.append((f'polar:suppress#{i}', ok, f"angle omitted under a test that reads self.{sorted(reads)}" + ('' if ok else
                    ' -- the test is not a test on the angle: a phase near ±pi (negative real quantity) is printed as a bare positive magnitude'), site))
    a = prog.find_member(m, cls, 'angle')
    oka = None
    if a:
        ev2 = Evaluator(prog)
        ta = ev2.call_fn(a[1], a[0], [A('self')], {}, {'__parent__': None}, 1)
        r = repr(tkey(ta))
        oka = "'angle'" in r and "('.', 'self', 'value')" in r and "('.', 'self', 'deg')" in r
    out.append(('polar:angle', oka, 'angle = np.angle(value, deg=self.deg)', site))
    return out


def clamp_rule(rep, prog):
    """the scale that is printed is the scale of the number: for an engineering exponent e the exponent denoted by the prefix letter plus the
    exponent written as `e<n>` equals e -- with prefixes (letter of e if the table has it; beyond the table the nearest end letter and the
    rest as extension) and without (extension only).  Decided by partial evaluation of exp_prefix / exp_extension (term evaluator, constants
    folded; nothing executed) for every multiple of three from four steps below to four steps above each prefix table IN USE."""
    from ..terms import Evaluator, Rec, Poly, Opq, _HK
    from ..api import A
    m = prog.mod(UT); cls = m.defs.get('ScientificFloat')
    rep.rule('R18.clamp', 'prefix letter and exponent extension together denote the engineering exponent (inside, below and above the prefix table; with and without prefixes)')
    if not isinstance(cls, ast.ClassDef):
        rep.ob('R18.clamp', 'ScientificFloat', None, 'class not found'); return
    mp, me = prog.find_member(m, cls, 'exp_prefix'), prog.find_member(m, cls, 'exp_extension')
    if not mp or not me:
        rep.ob('R18.clamp', 'ScientificFloat', None, 'exp_prefix / exp_extension not found', prog.site(m, cls)); return
    tables = []
    for key, ok, detail, site in si_tables(prog):
        if key.startswith(('default:ScientificFloat', 'helper:')) and detail.startswith('{'):
            try: tb = ast.literal_eval(detail.split(' -- ')[0])
            except Exception: continue
            if isinstance(tb, dict) and tb and tb not in tables: tables.append(tb)
    if not tables:
        rep.ob('R18.clamp', 'tables', None, 'no prefix table in use was evaluated', prog.site(m, cls)); return
    def ext_value(t):
        if t == '': return 0
        if isinstance(t, Opq) and t.k and t.k[0] == 'strcat' and len(t.k) == 3 and t.k[1] == 'e' and isinstance(t.k[2], Opq) and t.k[2].k[0] == 'fmt' and isinstance(t.k[2].k[1], Poly):
            c = t.k[2].k[1].real_const()
            if c is not None and c.denominator == 1 and not t.k[2].k[2]: return int(c)
        if isinstance(t, str) and t.startswith('e'):
            try: return int(t[1:])
            except ValueError: return None
        return None
    for tb in tables:
        keys3 = sorted(k for k in tb if k % 3 == 0)
        lo, hi = min(keys3), max(keys3)
        for use in (True, False):
            bad = []; undecided = []
            for e in range(lo - 12, hi + 13, 3):
                ev = Evaluator(prog)
                selfv = Rec('ScientificFloat', {'value': A('v'), 'unit': '', 'precision': A('p'), 'use_exp_prefix': use, 'exp_prefixes': {_HK(Poly.const(k)): v for k, v in tb.items()}}, (m, cls))
                pf = ev.call_fn(mp[1], mp[0], [selfv, Poly.const(e)], {}, {'__parent__': None}, 1)
                ex = ev.call_fn(me[1], me[0], [selfv, Poly.const(e)], {}, {'__parent__': None}, 1)
                n = ext_value(ex)
                if not isinstance(pf, str) or n is None: undecided.append(e); continue
                if pf == '': k = 0
                else:
                    ks = [k_ for k_, v_ in tb.items() if v_ == pf]
                    if len(ks) != 1: bad.append((e, pf, n)); continue
                    k = ks[0]
                if k + n != e: bad.append((e, pf, n))
            name = f"{'prefix' if use else 'plain'}:{{{', '.join(f'{k}:{v}' for k, v in sorted(tb.items()))}}}"
            ok = False if bad else (None if undecided else True)
            rep.ob('R18.clamp', name, ok, (f'letter + extension = exponent for every multiple of three in [{lo - 12}, {hi + 12}]' if ok else
                   f"exponent {bad[0][0]} is printed as '{('e' + str(bad[0][2])) if bad[0][2] else ''}{bad[0][1]}', i.e. 10^{(next((k_ for k_, v_ in tb.items() if v_ == bad[0][1]), 0)) + bad[0][2]}: the value shown is off by a power of ten" if bad else
                   f'not folded for exponents {undecided[:4]}'), prog.site(me[0], me[1]))


def run(rep, prog, tier):
    from .hidden import no_hidden_state
    rep.rule('R18.state', 'no hidden state in the anchored modules: no function writes a module-level object, no caching decorator / cached property')
    no_hidden_state(rep, 'R18.state', prog, ['Utils.py', 'SimpleCircuit/Display.py'])
    rep.rule('R18.tables', 'in every prefix table of Utils.py / Display.py each key that is a multiple of three carries its SI letter; helpers pass their unit')
    rep.rule('R18.exp3', 'exponent3 = 3*floor((precision + exponent - 1)/3) (a multiple of three by construction) and mantissa3 = mantissa * 10**(exponent - exponent3)')
    rep.rule('R18.glyph', "real part renders '- ' iff real < 0, imaginary part ' - ' iff imag < 0 (else ' + '); magnitudes are rendered from abs(...)")
    rep.rule('R18.inf', 'saturation (is_inf) is tested before any digit is formatted; is_inf / is_zero compare the exponent with the table limits')
    rep.assume('NOT DECIDED (main clause): half-unit accuracy of the digit string for every binary64 value, rounding carries, precision != 3')
    for key, ok, detail, site in si_tables(prog):
        rep.ob('R18.tables', key, ok, detail, site)
    for key, ok, detail, site in polar_rule(prog):
        rep.ob('R18.glyph', key, ok, detail, site)
    clamp_rule(rep, prog)
    m = prog.mod(UT)
    # ---- exponent3 / mantissa3
    cls = m.defs.get('Float3')
    if not isinstance(cls, ast.ClassDef):
        rep.ob('R18.exp3', 'Float3', None, 'class not found')
    else:
        ev = Evaluator(prog, real_atoms={'self'})
        mem = prog.find_member(m, cls, 'exponent3')
        t = ev.call_fn(mem[1], mem[0], [A('self')], {}, {'__parent__': None}, 1)
        sp = spec(ev, "3*floor((self.precision + self.exponent - 1)/3)", {'self': A('self')}, m)
        got = t
        if isinstance(t, Poly) and t.as_atom() and t.as_atom()[0] == 'int':
            got = Poly(dict(t.as_atom()[1][1:]))
        rep.ob('R18.exp3', 'exponent3', compare_terms(got, sp), f'= {t!r:.160}', prog.site(mem[0], mem[1]), lhs=got, rhs=sp)
        mem = prog.find_member(m, cls, 'mantissa3')
        t = ev.call_fn(mem[1], mem[0], [A('self')], {}, {'__parent__': None}, 1)
        sp = spec(ev, "self.mantissa * 10**(self.exponent - self.exponent3)", {'self': A('self')}, m)
        rep.ob('R18.exp3', 'mantissa3', compare_terms(t, sp), f'= {t!r:.160}', prog.site(mem[0], mem[1]), lhs=t, rhs=sp)
    # ---- sign glyphs
    cls = m.defs.get('ScientificComplex')
    if isinstance(cls, ast.ClassDef):
        for prop, part, neg, pos in (('real_sign', 'real', '- ', ''), ('imag_sign', 'imag', ' - ', ' + ')):
            mem = prog.find_member(m, cls, prop)
            fn = mem[1]
            ev = Evaluator(prog); ev.self_class = (m, cls)
            t = ev.call_fn(fn, mem[0], [A('self')], {}, {'__parent__': None}, 1)
            sp = spec(ev, f"(({pos!r} if self.value.{part} >= 0 else {neg!r}).strip() if self.compact else ({pos!r} if self.value.{part} >= 0 else {neg!r}))", {'self': A('self')}, m)
            rep.ob('R18.glyph', prop, compare_terms(t, sp), f"{prop} = {t!r:.160}", prog.site(mem[0], fn), lhs=t, rhs=sp)
        for prop, want in (('real', 'abs(self.value.real)'), ('imag', 'abs(self.value.imag)'), ('abs', 'abs(self.value)')):
            mem = prog.find_member(m, cls, prop)
            ev = Evaluator(prog); ev.self_class = (m, cls)
            t = ev.call_fn(mem[1], mem[0], [A('self')], {}, {'__parent__': None}, 1)
            sp = spec(ev, want, {'self': A('self')}, m)
            from ..terms import Rec as _Rec, term_equal as _te, has_opaque as _ho
            got = t.f.get('value') if isinstance(t, _Rec) else None
            rep.ob('R18.glyph', f'magnitude:{prop}', True if (got is not None and _te(got, sp)) else (None if got is None or _ho(got) else False), f'rendered from {got!r:.80}', prog.site(mem[0], mem[1]))
    else:
        rep.ob('R18.glyph', 'ScientificComplex', None, 'class not found')
    # ---- saturation first: when value3.is_inf holds, __str__ yields the infinity glyph (signed by the mantissa) on every path
    cls = m.defs.get('ScientificFloat')
    if isinstance(cls, ast.ClassDef):
        mem = prog.find_member(m, cls, '__str__')
        fn = mem[1]
        ev = Evaluator(prog); ev.self_class = (m, cls)
        v3 = A('v3')
        ev.stores[('self', 'value3')] = v3
        ev.add_fact(ev.getattr(v3, 'is_inf', m, 0), '!=0')
        t = ev.call_fn(fn, mem[0], [A('self')], {}, {'__parent__': None}, 1)
        from ..terms import paths_of as _po
        leaves = [l for _, l in _po(t)]
        ok = bool(leaves) and all(isinstance(l, str) and l in ('∞', '-∞') for l in leaves) and {'∞', '-∞'} <= set(leaves)
        rep.ob('R18.inf', '__str__:saturation-first', True if ok else (None if any('?' in repr(tkey(l)) for l in leaves if not isinstance(l, str)) else False),
               f'with value3.is_inf the rendering is {t!r:.120}', prog.site(mem[0], fn))
    fp = m.defs.get('FloatPrecision')
    if isinstance(fp, ast.ClassDef):
        ev = Evaluator(prog)
        mem = prog.find_member(m, fp, 'is_inf')
        t = ev.call_fn(mem[1], mem[0], [A('self')], {}, {'__parent__': None}, 1)
        sp = spec(ev, "self.exponent > self.max_exp", {'self': A('self')}, m)
        rep.ob('R18.inf', 'is_inf', compare_terms(t, sp), f'= {t!r}', prog.site(mem[0], mem[1]))
        mem = prog.find_member(m, fp, 'is_zero')
        t = ev.call_fn(mem[1], mem[0], [A('self')], {}, {'__parent__': None}, 1)
        sp = spec(ev, "True if self.value == 0 else self.exponent < self.min_exp", {'self': A('self')}, m)
        rep.ob('R18.inf', 'is_zero', compare_terms(t, sp), f'= {t!r:.120}', prog.site(mem[0], mem[1]))
    # limits come from the prefix table when prefixes are used
    sf = m.defs.get('ScientificFloat')
    mem = prog.find_member(m, sf, 'value3') if isinstance(sf, ast.ClassDef) else None
    if mem:
        from ..terms import Rec as _Rec, term_equal as _te
        ev = Evaluator(prog); ev.self_class = (m, sf); ev.opaque_classes |= {'Float3'}
        ev.stores[('self', 'use_exp_prefix')] = True
        t = ev.call_fn(mem[1], mem[0], [A('self')], {}, {'__parent__': None}, 1)
        at = t.as_atom() if isinstance(t, Poly) else None
        ok = None
        if isinstance(at, tuple) and at[:2] == ('call', ('cls', 'Float3')):
            kw = dict(at[3])
            lo = spec(ev, "min(self.exp_prefixes.keys())", {'self': A('self')}, m); hi = spec(ev, "max(self.exp_prefixes.keys())", {'self': A('self')}, m)
            lo2 = spec(ev, "min(self.exp_prefixes)", {'self': A('self')}, m); hi2 = spec(ev, "max(self.exp_prefixes)", {'self': A('self')}, m)
            ok = kw.get('min_exp') in (tkey(lo), tkey(lo2)) and kw.get('max_exp') in (tkey(hi), tkey(hi2))
        rep.ob('R18.inf', 'limits-from-table', ok, 'min_exp / max_exp are the smallest / largest key of the prefix table' if ok else f'value3 = {t!r:.160}', prog.site(mem[0], mem[1]))
