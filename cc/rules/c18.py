"""C18 -- displayed numbers: ONLY the table / structural part (SI prefixes, exponent multiple of three by construction, sign glyphs, saturation first).

The main clause (half-unit accuracy of the digit string for every binary64 value) is string arithmetic on run-time values and is NOT decided."""
from __future__ import annotations
import ast
from ..api import A, spec
from ..terms import Evaluator, Poly, Rec, Cond, Opq, Closure, tkey, paths_of, term_equal, has_opaque, compare_terms, as_poly
from ..paths import paths
from ..report import AnalysisError

UT = 'Utils'
DSP = 'SimpleCircuit.Display'
SI = {-15: {'f'}, -12: {'p'}, -9: {'n'}, -6: {'u', 'μ', 'µ'}, -3: {'m'}, 3: {'k'}, 6: {'M'}, 9: {'G'}, 12: {'T'}, 15: {'P'}}
UNIT_OF = {'print_resistance': 'Ω', 'print_conductance': 'S', 'print_impedance': 'Ω', 'print_capacitance': 'F', 'print_inductance': 'H'}


def _int_keys_dicts(tree):
    for n in ast.walk(tree):
        if isinstance(n, ast.Dict) and n.keys and all(isinstance(k, (ast.Constant, ast.UnaryOp)) for k in n.keys):
            keys = []
            ok = True
            for k in n.keys:
                try: v = ast.literal_eval(k)
                except Exception: ok = False; break
                if not isinstance(v, int) or isinstance(v, bool): ok = False; break
                keys.append(v)
            vals = [v.value if isinstance(v, ast.Constant) else None for v in n.values]
            if ok and all(isinstance(v, str) for v in vals): yield n, dict(zip(keys, vals))


def si_tables(prog):
    """(key, ok, detail, site) for every prefix table literal of Utils.py and Display.py"""
    out = []
    count = 0
    for short in (UT, DSP):
        m = prog.mod(short)
        per_fn = {}
        for n, d in _int_keys_dicts(m.tree):
            count += 1
            fn = None
            for f in ast.walk(m.tree):
                if isinstance(f, (ast.FunctionDef, ast.ClassDef)) and f.lineno <= n.lineno <= (f.end_lineno or f.lineno): fn = f.name if isinstance(f, ast.FunctionDef) or fn is None else fn
            per_fn[fn] = per_fn.get(fn, 0) + 1
            key = f'{short}:{fn}#{per_fn[fn]}'
            bad = [(e, s) for e, s in d.items() if e % 3 == 0 and e in SI and s not in SI[e]]
            unknown = [(e, s) for e, s in d.items() if e % 3 == 0 and e not in SI and e != 0]
            off = [(e, s) for e, s in d.items() if e % 3 != 0 and not (e, s) in ((-1, 'c'), (-2, 'c'), (1, 'da'), (2, 'h'), (-1, 'd'))]
            ok = not bad and not unknown and not off
            detail = f'{d}' if ok else f'wrong SI letter(s): {bad + unknown + off} in {d}'
            out.append((key, ok, detail, f'{m.rel}:{n.lineno}'))
    if count < 10:
        out.append(('tables:count', None, f'only {count} prefix tables found (13 confirmed)', ''))
    # units of the helpers
    m = prog.mod(DSP)
    for fname, unit in UNIT_OF.items():
        fn = m.defs.get(fname)
        if not isinstance(fn, ast.FunctionDef):
            out.append((f'unit:{fname}', None, 'helper not found', '')); continue
        units = [k.value.value for n in ast.walk(fn) if isinstance(n, ast.Call) for k in n.keywords if k.arg == 'unit' and isinstance(k.value, ast.Constant)]
        out.append((f'unit:{fname}', units == [unit], f'unit = {units}', f'{m.rel}:{fn.lineno}'))
    return out


def polar_rule(prog):
    """(key, verdict, detail, site): in polar mode the angle is left out only under a test on the angle itself"""
    m = prog.mod(UT); cls = m.defs.get('ScientificComplex')
    out = []
    if not isinstance(cls, ast.ClassDef): return [('polar', None, 'ScientificComplex not found', '')]
    mem = prog.find_member(m, cls, '__str__')
    fn = mem[1]; site = prog.site(mem[0], fn)
    polar_ifs = [n for n in ast.walk(fn) if isinstance(n, ast.If) and ast.unparse(n.test) == 'self.polar']
    if not polar_ifs: return [('polar', None, 'no `if self.polar` branch found', site)]
    sup = []
    for n in ast.walk(polar_ifs[0]):
        if isinstance(n, ast.If) and n is not polar_ifs[0] and n.body and isinstance(n.body[-1], ast.Return):
            r = ast.unparse(n.body[-1].value) if n.body[-1].value is not None else ''
            if '∠' not in r and 'angle' not in r: sup.append(n)
    if not sup: return [('polar', None, 'no angle-suppressing branch found', site)]
    helpers = {x.name: x for x in cls.body if isinstance(x, ast.FunctionDef)}
    for i, n in enumerate(sup):
        reads = set()
        def collect(t, depth=0):
            for a in ast.walk(t):
                if isinstance(a, ast.Attribute) and isinstance(a.value, ast.Name) and a.value.id == 'self':
                    if a.attr in helpers and a.attr not in ('angle',) and depth < 3 and prog.is_property(helpers[a.attr]):
                        collect(helpers[a.attr], depth + 1)          # a helper property: look at what IT reads
                    else: reads.add(a.attr)
        collect(n.test)
        ok = reads <= {'angle', 'deg'}
        out.append((f'polar:suppress#{i}', ok, f"angle omitted under `{ast.unparse(n.test)[:70]}` which reads self.{sorted(reads)}" + ('' if ok else
                    ' -- the test is not a test on the angle: a phase near ±pi (negative real quantity) is printed as a bare positive magnitude'), site))
    a = helpers.get('angle')
    oka = a is not None and 'np.angle(self.value, deg=self.deg)' in ast.unparse(a)
    out.append(('polar:angle', oka, 'angle = np.angle(value, deg=self.deg)', site))
    return out


def run(rep, prog, tier):
    from .hidden import no_hidden_state
    rep.rule('R18.state', 'no hidden state in the anchored modules: no function writes a module-level object, no caching decorator / cached property')
    no_hidden_state(rep, 'R18.state', prog, ['Utils.py', 'SimpleCircuit/Display.py'])
    rep.rule('R18.tables', 'in every prefix table of Utils.py / Display.py each key that is a multiple of three carries its SI letter; helpers pass their unit')
    rep.rule('R18.exp3', 'exponent3 = 3*floor((precision + exponent - 1)/3) (a multiple of three by construction) and mantissa3 = mantissa * 10**(exponent - exponent3)')
    rep.rule('R18.glyph', "real part renders '- ' iff real < 0, imaginary part ' - ' iff imag < 0 (else ' + '); magnitudes are rendered from abs(...)")
    rep.rule('R18.inf', 'saturation (is_inf) is tested before any digit is formatted; is_inf / is_zero compare the exponent with the table limits')
    rep.assume('NOT DECIDED (main clause): half-unit accuracy of the digit string for every binary64 value, rounding carries, precision != 3')
    for key, ok, detail, site in si_tables(prog):
        rep.ob('R18.tables', key, ok, detail, site)
    for key, ok, detail, site in polar_rule(prog):
        rep.ob('R18.glyph', key, ok, detail, site)
    m = prog.mod(UT)
    # ---- exponent3 / mantissa3
    cls = m.defs.get('Float3')
    if not isinstance(cls, ast.ClassDef):
        rep.ob('R18.exp3', 'Float3', None, 'class not found')
    else:
        ev = Evaluator(prog, real_atoms={'self'})
        mem = prog.find_member(m, cls, 'exponent3')
        t = ev.call_fn(mem[1], mem[0], [A('self')], {}, {'__parent__': None}, 1)
        sp = spec(ev, "3*floor((self.precision + self.exponent - 1)/3)", {'self': A('self')}, m)
        got = t
        if isinstance(t, Poly) and t.as_atom() and t.as_atom()[0] == 'int':
            got = Poly(dict(t.as_atom()[1][1:]))
        rep.ob('R18.exp3', 'exponent3', compare_terms(got, sp), f'= {t!r:.160}', prog.site(mem[0], mem[1]), lhs=got, rhs=sp)
        mem = prog.find_member(m, cls, 'mantissa3')
        t = ev.call_fn(mem[1], mem[0], [A('self')], {}, {'__parent__': None}, 1)
        sp = spec(ev, "self.mantissa * 10**(self.exponent - self.exponent3)", {'self': A('self')}, m)
        rep.ob('R18.exp3', 'mantissa3', compare_terms(t, sp), f'= {t!r:.160}', prog.site(mem[0], mem[1]), lhs=t, rhs=sp)
    # ---- sign glyphs
    cls = m.defs.get('ScientificComplex')
    if isinstance(cls, ast.ClassDef):
        for prop, part, neg, pos in (('real_sign', 'real', '- ', ''), ('imag_sign', 'imag', ' - ', ' + ')):
            mem = prog.find_member(m, cls, prop)
            fn = mem[1]
            ev = Evaluator(prog)
            t = ev.call_fn(fn, mem[0], [A('self')], {}, {'__parent__': None}, 1)
            sp = spec(ev, f"(({pos!r} if self.value.{part} >= 0 else {neg!r}).strip() if self.compact else ({pos!r} if self.value.{part} >= 0 else {neg!r}))", {'self': A('self')}, m)
            rep.ob('R18.glyph', prop, compare_terms(t, sp), f"{prop} = {t!r:.160}", prog.site(mem[0], fn), lhs=t, rhs=sp)
        for prop, want in (('real', 'abs(self.value.real)'), ('imag', 'abs(self.value.imag)'), ('abs', 'abs(self.value)')):
            mem = prog.find_member(m, cls, prop)
            from ..prog import returned_expr
            rv = returned_expr(mem[1])
            a0 = ast.unparse(rv.args[0]) if isinstance(rv, ast.Call) and rv.args else None
            rep.ob('R18.glyph', f'magnitude:{prop}', a0 == want, f'rendered from {a0}', prog.site(mem[0], mem[1]))
    else:
        rep.ob('R18.glyph', 'ScientificComplex', None, 'class not found')
    # ---- saturation first
    cls = m.defs.get('ScientificFloat')
    if isinstance(cls, ast.ClassDef):
        mem = prog.find_member(m, cls, '__str__')
        fn = mem[1]
        stmts = [st for st in fn.body if not (isinstance(st, ast.Expr) and isinstance(st.value, ast.Constant))]
        first = stmts[0] if stmts else None
        ok = (isinstance(first, ast.If) and 'is_inf' in ast.unparse(first.test) and first.body and isinstance(first.body[-1], ast.Return)
              and '∞' in ast.unparse(ast.Module(body=first.body, type_ignores=[])))
        rep.ob('R18.inf', '__str__:saturation-first', ok, f'first statement: {ast.unparse(first)[:80] if first is not None else None}', prog.site(mem[0], fn))
    fp = m.defs.get('FloatPrecision')
    if isinstance(fp, ast.ClassDef):
        ev = Evaluator(prog)
        mem = prog.find_member(m, fp, 'is_inf')
        t = ev.call_fn(mem[1], mem[0], [A('self')], {}, {'__parent__': None}, 1)
        sp = spec(ev, "self.exponent > self.max_exp", {'self': A('self')}, m)
        rep.ob('R18.inf', 'is_inf', compare_terms(t, sp), f'= {t!r}', prog.site(mem[0], mem[1]))
        mem = prog.find_member(m, fp, 'is_zero')
        t = ev.call_fn(mem[1], mem[0], [A('self')], {}, {'__parent__': None}, 1)
        sp = spec(ev, "True if self.value == 0 else self.exponent < self.min_exp", {'self': A('self')}, m)
        rep.ob('R18.inf', 'is_zero', compare_terms(t, sp), f'= {t!r:.120}', prog.site(mem[0], mem[1]))
    # limits come from the prefix table when prefixes are used
    sf = m.defs.get('ScientificFloat')
    mem = prog.find_member(m, sf, 'value3') if isinstance(sf, ast.ClassDef) else None
    if mem:
        src = ast.unparse(mem[1]).replace(' ', '')
        ok = 'min_exp=min(self.exp_prefixes.keys())' in src and 'max_exp=max(self.exp_prefixes.keys())' in src
        rep.ob('R18.inf', 'limits-from-table', ok, 'min_exp / max_exp are the smallest / largest key of the prefix table', prog.site(mem[0], mem[1]))
