"""C20 -- analyses are pure, repeatable functions of the circuit description (effect analysis E3)."""
from __future__ import annotations
import ast
from ..effects import Effects, mutable_defaults, cache_decorators, INIT_METHODS
from ..prog import Program, params_of
from ..report import AnalysisError

SCOPE = ('Network.', 'Network::', 'Circuit.', 'SignalProcessing.', 'dump_load::')
# writes through `self` outside construction that are part of the documented behaviour (one line of reason each)
SELF_WRITE_EXCEPTIONS: dict[str, str] = {}

POSITIVE_CONTROL = {
    'Network/__init__.py': '',
    'Network/ctl.py': (
        "_memo = {}\n"
        "def writes_param(d, keep=[]):\n"
        "    d['x'] = 1\n"
        "    keep.append(d)\n"
        "    return d\n"
        "def writes_global(k):\n"
        "    _memo[k] = 1\n"
        "def forwards(entry):\n"
        "    return writes_param(entry)\n"
        "def clean(d):\n"
        "    e = dict(d)\n"
        "    e['x'] = 1\n"
        "    l = list(d.values())\n"
        "    l.sort()\n"
        "    return e\n"),
}


def in_scope(q: str) -> bool:
    return q.startswith(SCOPE)


def effects_of(prog) -> Effects:
    if not hasattr(prog, '_effects'):
        prog._effects = Effects(prog).run()
    return prog._effects


def positive_control(rep):
    p = Program(root='', sources=POSITIVE_CONTROL)
    e = Effects(p).run()
    ok = ('d' in e.summ['Network.ctl::writes_param'].mut and 'keep' in e.summ['Network.ctl::writes_param'].mut
          and 'entry' in e.summ['Network.ctl::forwards'].mut and ('Network.ctl', '_memo') in e.summ['Network.ctl::writes_global'].globals_w
          and not e.summ['Network.ctl::clean'].mut)
    if not ok:
        raise AnalysisError('effect engine self-check failed: the built-in positive example is not reported / the clean twin is')
    rep.count('positive_controls', 4)


def run(rep, prog, tier, scope_fn=in_scope, pid_rule='R20'):
    from .hidden import no_hidden_state
    rep.rule('R20.state', 'no hidden state in the anchored modules: no function writes a module-level object, no caching decorator / cached property')
    no_hidden_state(rep, 'R20.state', prog, ['Network/transformers.py', 'Network/loaders.py', 'Network/NodalAnalysis/state_space_model.py', 'Network/NodalAnalysis/solution.py', 'dump_load.py', 'Circuit/solution.py'])
    rep.rule(f'{pid_rule}.param', 'no function in Network/, Circuit/, SignalProcessing/, dump_load.py writes (directly or through any callee, dispatch table, default callable or partial) to an object owned by one of its parameters')
    rep.rule(f'{pid_rule}.default', 'no mutable default argument is ever written')
    rep.rule(f'{pid_rule}.global', 'no function writes a module-level object or rebinds a global; no caching decorator')
    rep.rule(f'{pid_rule}.self', 'objects are written through self only while under construction (__init__/__post_init__)')
    positive_control(rep)
    eff = effects_of(prog)
    rep.count('functions_analysed', len(prog.funcs))
    rep.count('fixpoint_iterations', eff.iterations)
    n = 0
    construction_only = eff.construction_only
    for q, f in sorted(prog.funcs.items()):
        if not scope_fn(q) or f.parent is not None: continue
        n += 1
        sm = eff.summ[q]
        is_init = f.cls is not None and isinstance(f.node, ast.FunctionDef) and f.node.name in INIT_METHODS
        selfname = (params_of(f.node)[0] or [None])[0] if f.cls is not None else None
        muts = {p: s for p, s in sm.mut.items() if not (p == selfname and f.cls is not None)}
        if isinstance(f.node, ast.FunctionDef) and getattr(f.node, 'name', '').startswith('_') and not getattr(f.node, 'name', '').startswith('__'): muts = {}      # private helper: what it does to a caller's argument is charged to the public caller's summary
        if f.cls is not None and f.cls.name.startswith('_') and not f.cls.name.startswith('__'): muts = {}          # method of a private helper class: likewise charged to the public caller
        if muts:
            for p, s in sorted(muts.items()):
                rep.ob(f'{pid_rule}.param', f'{q}({p})', False, f'writes to an object owned by its parameter `{p}`: {s}', f.site)
        else:
            rep.ob(f'{pid_rule}.param', q, True, 'no write to a parameter-owned object on any path or through any callee', f.site)
        fname_ = getattr(f.node, 'name', '')
        private_fn = f.cls is None and fname_.startswith('_') and not fname_.startswith('__')
        for g, s in sorted(sm.globals_w.items()):
            if private_fn: continue          # registration helper run at import time; a run-time caller carries the write in its own summary
            rep.ob(f'{pid_rule}.global', f'{q}->{g[0]}.{g[1]}', False, f'writes module-level object {g[0]}.{g[1]}: {s}', f.site)
        if f.cls is not None and q in construction_only: is_init = True          # part of the initialiser, split off into a private method
        if f.cls is not None and f.cls.name.startswith('_') and not is_init:
            continue        # a private helper class: its objects live inside one call of the public function that creates them
        if f.cls is not None and is_init:
            for a, s in sorted(sm.self_w.items()):
                rep.ob(f'{pid_rule}.param', f'{q}:{a}', False, f'writes to a caller-supplied object held in a field while constructing: {s}', f.site)
        if f.cls is not None and not is_init:
            for a, s in sorted(sm.self_w.items()):
                key = f'{q}:{a}'
                if q in SELF_WRITE_EXCEPTIONS: rep.info(f'{key} excepted: {SELF_WRITE_EXCEPTIONS[q]}'); continue
                rep.ob(f'{pid_rule}.self', key, False, f'writes object state outside construction: {s}', f.site)
    if n < 100:
        raise AnalysisError(f'only {n} functions in scope')
    any_glob = any(o['rule'] == f'{pid_rule}.global' for o in rep.obs)
    if not any_glob:
        rep.ob(f'{pid_rule}.global', 'all-functions', True, f'{n} functions: none writes a module-level object')
    if not any(o['rule'] == f'{pid_rule}.self' for o in rep.obs):
        rep.ob(f'{pid_rule}.self', 'all-methods', True, 'no method writes through self outside __init__/__post_init__')
    scope_prefixes = [s for s in SCOPE]
    defaults = [d for d in mutable_defaults(prog) if scope_fn(d[0])]
    for q, p, site, text in defaults:
        hit = eff.summ[q].mut.get(p)
        rep.ob(f'{pid_rule}.default', f'{q}({p}={text})', hit is None, 'mutable default is never written' if hit is None else f'mutable default written: {hit}', site)
    rep.count('mutable_defaults', len(defaults))
    caches = [c for c in cache_decorators(prog) if scope_fn(c[0])]
    for q, d, site in caches:
        rep.ob(f'{pid_rule}.global', f'{q}@{d}', False, f'caching decorator @{d} keeps results across calls', site)
    if not caches:
        rep.ob(f'{pid_rule}.global', 'no-cache-decorators', True, 'no caching decorator in scope')
    # module-level statements that mutate module state after import are out of reach of function summaries: list them
    for m in prog.modules.values():
        if not (m.short + '::').startswith(SCOPE) and not (m.short + '.').startswith(SCOPE): continue
        for st in m.tree.body:
            if isinstance(st, ast.Expr) and isinstance(st.value, ast.Call) and isinstance(st.value.func, ast.Attribute) and st.value.func.attr in ('append', 'update', 'extend', 'pop', 'clear'):
                rep.info(f'module-level mutation at {m.rel}:{st.lineno}: {ast.unparse(st)[:60]}')
    rep.assume('schemdraw / numpy / scipy / json / yaml calls do not write to their arguments (external library summaries are "pure")')
    rep.assume('object identity flows only through the modelled constructs: attribute, subscript, iteration, .get/.pop/.values()/.items(), shallow container constructors, calls')
