"""Rules over the solution classes (Circuit/solution.py, Network/NodalAnalysis/*solution*.py): C02 rms/wiring, C05 power, C09 time/peak."""
from __future__ import annotations
import ast
from ..api import A, spec, call, call_ref
from ..terms import Evaluator, Poly, Rec, Cond, Opq, Comp, Closure, tkey, paths_of, term_equal, has_opaque, as_poly, compare_terms
from ..report import AnalysisError

CS = 'Circuit.solution'
CC = 'Circuit.circuit'


def class_of(prog, short, name):
    m = prog.mod(short)
    c = m.defs.get(name)
    if not isinstance(c, ast.ClassDef):
        raise AnalysisError(f'class {short}.{name} not found')
    return m, c


def subclasses_of(prog, short, base):
    m = prog.mod(short)
    out = []
    for n, c in m.defs.items():
        if isinstance(c, ast.ClassDef) and n != base and any(bc.name == base for _, bc in prog.mro(m, c)):
            out.append(c)
    return out


def new_ev(prog, opaque=(), **kw):
    ev = Evaluator(prog, **kw)
    ev.opaque_fns |= set(opaque)
    # `network` / `self.network` are objects of class Network: their is_zero_node test is unfolded (one term for `n == zero` and `is_zero_node(n)`)
    try:
        nm = prog.mod('Network.network'); c = nm.defs.get('Network')
        mem = prog.find_member(nm, c, 'is_zero_node') if isinstance(c, ast.ClassDef) else None
        if mem and isinstance(mem[1], ast.FunctionDef):
            for at in ('network', ('.', 'self', 'network')): ev.atom_methods[(at, 'is_zero_node')] = (mem[0], mem[1])
    except KeyError:
        pass
    return ev


OPAQUE_CIRCUIT = {(CC, 'transform_circuit'), (CC, 'frequency_components'), ('Network.NodalAnalysis.state_space_model', 'nodal_state_space_model')}


def init_self(prog, ev, m, cls, self_atom='self'):
    """run __post_init__ (or __init__) symbolically on an atom `self`; stores are kept in ev.stores"""
    ev.self_class = (m, cls)
    mem = prog.find_member(m, cls, '__post_init__')
    if mem and isinstance(mem[1], ast.FunctionDef):
        ev.call_fn(mem[1], mem[0], [A(self_atom)], {}, {'__parent__': None}, 1)
    return ev


def method_term(prog, ev, m, cls, name, args):
    ev.self_class = (m, cls)
    mem = prog.find_member(m, cls, name)
    if not mem or not isinstance(mem[1], ast.FunctionDef):
        raise AnalysisError(f'{cls.name}.{name} not found')
    return ev.call_fn(mem[1], mem[0], [A('self')] + list(args), {}, {'__parent__': None}, 1), prog.site(mem[0], mem[1])


def v3(ok, *terms):
    if ok: return True
    return None if any(has_opaque(t) for t in terms) else False


# ---------------------------------------------------------------------------------------------- C02
def network_wiring(rep, rid, key, prog, ev, m, stored, want_w, site):
    """the stored solution must be self.solver(transform(self.circuit, w=[<want_w>])[0])"""
    env = {'self': A('self')}
    r = prog.resolve(prog.mod(CC), 'transform_circuit')
    env['transform_circuit'] = ev.ref_of(r)
    ok = False; why = f'stored solution = {stored!r:.200}'
    at = stored.as_atom() if isinstance(stored, Poly) else None
    if at and at[0] == 'call' and at[1] == ('.', 'self', 'solver') and len(at[2]) == 1:
        net = at[2][0]
        # net is poly-key of atom call(fn transform_circuit)(circuit, w, ...)
        try:
            natom = Poly(dict(net[1:])).as_atom()
        except Exception:
            natom = None
        if natom and natom[0] == 'call' and natom[1] == ('fn', 'transform_circuit'):
            a = natom[2]
            circ_ok = len(a) >= 1 and a[0] == tkey(ev.getattr(A('self'), 'circuit', m, 0))
            w_ok = len(a) >= 2 and a[1] == tkey(want_w)
            ok = circ_ok and w_ok
            why = f'network = transform_circuit(self.circuit, {Poly(dict(a[1][1:])) if len(a) > 1 else "?"!r}, …)' if len(a) > 1 else why
    rep.ob(rid, key, v3(ok, stored), why, site)


def solution_rules_c02(rep, prog):
    m, base = class_of(prog, CS, 'CircuitSolution')
    # ---- ComplexSolution
    m, cls = class_of(prog, CS, 'ComplexSolution')
    ev = init_self(prog, new_ev(prog, OPAQUE_CIRCUIT), m, cls)
    sol = ev.stores.get(('self', '_solution'))
    site = prog.site(m, cls)
    if sol is None:
        rep.ob('R02.rms', 'ComplexSolution:wiring', None, '__post_init__ stores no _solution', site)
    else:
        network_wiring(rep, 'R02.rms', 'ComplexSolution:wiring', prog, ev, m, sol, ev.getattr(A('self'), 'w', m, 0), site)
    for q in ('voltage', 'current', 'potential'):
        term, st = method_term(prog, ev, m, cls, f'get_{q}', [A('id')])
        sp = spec(ev, f"SOL.get_{q}(id) if self.peak_values else SOL.get_{q}(id)/sqrt(2)", {'SOL': sol, 'id': A('id'), 'self': A('self')}, m)
        c = compare_terms(term, sp)
        rep.ob('R02.rms', f'ComplexSolution.get_{q}', c, f'= {term!r:.240}', st, lhs=term, rhs=sp)
    # ---- DCSolution
    m, cls = class_of(prog, CS, 'DCSolution')
    ev = init_self(prog, new_ev(prog, OPAQUE_CIRCUIT), m, cls)
    sol = ev.stores.get(('self', '_solution'))
    site = prog.site(m, cls)
    if sol is None:
        rep.ob('R02.rms', 'DCSolution:wiring', None, '__post_init__ stores no _solution', site)
    else:
        network_wiring(rep, 'R02.rms', 'DCSolution:wiring', prog, ev, m, sol, Poly(), site)
    for q in ('voltage', 'current', 'potential'):
        term, st = method_term(prog, ev, m, cls, f'get_{q}', [A('id')])
        sp = spec(ev, f"real(SOL.get_{q}(id))", {'SOL': sol, 'id': A('id')}, m)
        c = compare_terms(term, sp)
        rep.ob('R02.rms', f'DCSolution.get_{q}', c, f'= {term!r:.240}', st, lhs=term, rhs=sp)
