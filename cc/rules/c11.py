"""C11 -- derived dynamics are passive and stable: ONLY the structural prerequisites (Lambda, A = Lambda^-1 S, simulation from rest).

The main clause (negative semidefiniteness of W A + A^T W, eigenvalue location, bounded energy) quantifies over real element values and
is NOT decided by static analysis; the rules below are necessary conditions of it."""
from __future__ import annotations
import ast
from ..api import A, spec, call
from ..terms import Evaluator, Poly, Comp, Opq, tkey, term_equal, has_opaque, as_poly
from ..spaces import show, same
from ..report import AnalysisError
from . import spacerules as SR
from .c10 import formulas as c10_formulas


def run(rep, prog, tier):
    from .hidden import no_hidden_state
    rep.rule('R11.state', 'no hidden state in the anchored modules: no function writes a module-level object, no caching decorator / cached property')
    no_hidden_state(rep, 'R11.state', prog, ['Network/NodalAnalysis/state_space_model.py', 'Circuit/solution.py', 'SignalProcessing/state_space_model.py'])
    rep.rule('R11.lambda', 'Lambda = diag(-C..., +L...) taken from c_values / l_values in the order of the state incidence; invLambda is the element-wise reciprocal; A = invLambda @ S (left multiplication)')
    rep.rule('R11.rest', 'the simulation starts from the zero state: lsim is called without an initial state (or with the zero vector passed by TransientSolution)')
    rep.assume('NOT DECIDED: definiteness of W A + A^T W, eigenvalue location, boundedness of simulated energy (run-time values)')
    m = prog.mod(SR.SS)
    f = prog.funcs.get(f'{SR.SS}::state_space_matrices.value_matrix')
    if f is None:
        rep.ob('R11.lambda', 'value_matrix', None, 'value_matrix not found'); return
    # diag blocks: sign of the per-element term and the dictionary it iterates
    blocks = []
    for n in ast.walk(f.node):
        if isinstance(n, ast.Call) and ast.unparse(n.func).endswith('diag') and n.args and isinstance(n.args[0], (ast.ListComp, ast.GeneratorExp)):
            comp = n.args[0]
            ev = Evaluator(prog)
            env = {'__parent__': None, 'c_values': A('c_values'), 'l_values': A('l_values')}
            t = ev.ev(comp, env, f.mod, 1)
            if isinstance(t, Comp) and len(t.gens) == 1:
                src = repr(t.gens[0][0])
                p = as_poly(t.elt)
                sg = None
                if p.single() is not None and p.single()[1][1] == 0 and len(p.single()[0]) == 1 and p.single()[0][0][1] == 1 and abs(p.single()[1][0]) == 1:
                    sg = 1 if p.single()[1][0] > 0 else -1
                blocks.append((src, sg, n.lineno, n.col_offset))
    blocks.sort(key=lambda b: (b[2], b[3]))
    site = f.site
    okC = len(blocks) >= 1 and 'c_values' in blocks[0][0] and 'values' in blocks[0][0] and blocks[0][1] == -1
    okL = len(blocks) >= 2 and 'l_values' in blocks[1][0] and 'values' in blocks[1][0] and blocks[1][1] == +1
    rep.ob('R11.lambda', 'block:C', okC if blocks else None, f'first diagonal block = {blocks[0] if blocks else None}: -C over c_values.values()', site)
    rep.ob('R11.lambda', 'block:L', okL if len(blocks) > 1 else None, f'second diagonal block = {blocks[1] if len(blocks) > 1 else None}: +L over l_values.values()', site)
    # layout of Lambda equals the state space (same order as DQ columns): from E4
    interps = SR.analyse(prog)
    lam_obs = [o for o in interps['ssm'].obs if 'value_matrix' in o.fn or (o.kind == 'matmul' and 'invLambda' in o.text)]
    for i, o in enumerate(lam_obs):
        rep.ob('R11.lambda', f'space:{o.fn.split(".")[-1]}:{o.kind}#{i}', o.verdict, f'{o.detail} [{o.text}]', o.site)
    if len(lam_obs) < 4:
        raise AnalysisError('space obligations of value_matrix / invLambda vanished')
    # A = invLambda @ S and invLambda = diag(1/diag(Lambda)) : shared with R10.formula / R10.wiring
    class _Sub:
        def __init__(s, rep): s.rep = rep
        def ob(s, rule, key, verdict, detail='', site='', **kw):
            if (rule == 'R10.formula' and key == 'A') or key.startswith('invLambda') or key.startswith('Lambda<-'):
                return s.rep.ob('R11.lambda', 'formula:' + key, verdict, detail, site)
    c10_formulas(_Sub(rep), prog)
    # ---- simulation from rest
    g = prog.func('SignalProcessing.state_space_model', 'continuous_state_space_solver')
    lsim = [n for n in ast.walk(g.node) if isinstance(n, ast.Call) and ast.unparse(n.func).endswith('lsim')]
    if not lsim:
        rep.ob('R11.rest', 'lsim', None, 'no lsim call found in continuous_state_space_solver', g.site)
    else:
        c = lsim[0]
        x0 = next((k.value for k in c.keywords if k.arg == 'X0'), c.args[3] if len(c.args) > 3 else None)
        ok = x0 is None or (isinstance(x0, ast.Name) and x0.id == 'x0')
        rep.ob('R11.rest', 'lsim', ok, 'lsim(sys, u, t) without initial state' if x0 is None else f'initial state passed: {ast.unparse(x0)}', g.site)
    from .c12 import solver_call_args
    m2, sc, site2 = solver_call_args(prog)
    if sc is None:
        rep.ob('R11.rest', 'TransientSolution:x0', None, 'self.solver(...) call not found in what __post_init__ stores', site2)
    else:
        x0 = sc.get('x0')
        ok = x0 is not None and _head(x0) == 'zeros'
        rep.ob('R11.rest', 'TransientSolution:x0', ok, 'initial state handed to the solver = zeros(...)' if ok else f'initial state = {x0!r:.100}', site2)


def _head(k):
    from ..terms import Poly
    if isinstance(k, tuple) and len(k) > 1 and k[0] == 'opq' and isinstance(k[1], str) and k[1].startswith('np.'): return k[1][3:]
    try: return Poly(dict(k[1:])).as_atom()[0]
    except Exception: return None
