"""C11 -- derived dynamics are passive and stable: ONLY the structural prerequisites (Lambda, A = Lambda^-1 S, simulation from rest).

The main clause (negative semidefiniteness of W A + A^T W, eigenvalue location, bounded energy) quantifies over real element values and
is NOT decided by static analysis; the rules below are necessary conditions of it."""
from __future__ import annotations
import ast
from ..api import A, spec, call
from ..terms import Evaluator, Poly, Comp, Opq, tkey, term_equal, has_opaque, as_poly
from ..spaces import show, same
from ..report import AnalysisError
from . import spacerules as SR
from .c10 import formulas as c10_formulas


def run(rep, prog, tier):
    from .hidden import no_hidden_state
    rep.rule('R11.state', 'no hidden state in the anchored modules: no function writes a module-level object, no caching decorator / cached property')
    no_hidden_state(rep, 'R11.state', prog, ['Network/NodalAnalysis/state_space_model.py', 'Circuit/solution.py', 'SignalProcessing/state_space_model.py'])
    rep.rule('R11.lambda', 'Lambda = diag(-C..., +L...) taken from c_values / l_values in the order of the state incidence; invLambda is the element-wise reciprocal; A = invLambda @ S (left multiplication)')
    rep.rule('R11.space', 'every product, stack and store that involves the state order (c_values then l_values) joins equal index spaces')
    rep.rule('R11.rest', 'the simulation starts from the zero state: lsim is called without an initial state (or with the zero vector passed by TransientSolution)')
    rep.assume('NOT DECIDED: definiteness of W A + A^T W, eigenvalue location, boundedness of simulated energy (run-time values)')
    _lambda_rules(rep, prog)
    # ---- simulation from rest
    g = prog.func('SignalProcessing.state_space_model', 'continuous_state_space_solver')
    from ..terms import Evaluator as _E, tkey as _tk
    evs = _E(prog)
    ps = [a.arg for a in g.node.args.args]
    t = evs.call_fn(g.node, g.mod, [A(p) for p in ps], {}, {'__parent__': None}, 1)
    def find_ext(k, name):
        if isinstance(k, tuple):
            if len(k) >= 4 and k[0] == 'call' and isinstance(k[1], tuple) and k[1][:1] == ('ext',) and k[1][1].split('.')[-1] == name: return k
            for x in k:
                r = find_ext(x, name)
                if r is not None: return r
        return None
    ls = find_ext(_tk(t), 'lsim')
    if ls is None:
        rep.ob('R11.rest', 'lsim', None, 'no lsim call found in continuous_state_space_solver', g.site)
    else:
        kw = dict(ls[3]); pos = list(ls[2])
        x0 = kw.get('X0', pos[3] if len(pos) > 3 else None)
        ok = x0 is None or (len(ps) > 3 and x0 == _tk(A(ps[3]))) or x0 == _tk(None)
        rep.ob('R11.rest', 'lsim', bool(ok), 'lsim(sys, u, t) without initial state' if x0 is None else ('initial state = the x0 handed in' if ok else f'initial state passed: {x0!r:.80}'), g.site)
    from .c12 import solver_call_args
    m2, sc, site2 = solver_call_args(prog)
    if sc is None:
        rep.ob('R11.rest', 'TransientSolution:x0', None, 'self.solver(...) call not found in what __post_init__ stores', site2)
    else:
        x0 = sc.get('x0')
        ok = x0 is not None and _head(x0) == 'zeros'
        rep.ob('R11.rest', 'TransientSolution:x0', ok, 'initial state handed to the solver = zeros(...)' if ok else f'initial state = {x0!r:.100}', site2)


def _head(k):
    from ..terms import Poly
    if isinstance(k, tuple) and len(k) > 1 and k[0] == 'opq' and isinstance(k[1], str) and k[1].startswith('np.'): return k[1][3:]
    try: return Poly(dict(k[1:])).as_atom()[0]
    except Exception: return None


def _lambda_rules(rep, prog):
    from . import ssm as SSM
    from ..diagalg import show as dshow, X
    an = SSM.analyse(prog)
    site = an['site']
    if 'undecided' in an:
        rep.ob('R11.lambda', 'value_matrix', None, an['undecided'], site); return False
    blocks, d = SSM.lambda_blocks(an)
    if blocks is None:
        rep.ob('R11.lambda', 'value_matrix', None, f"no unique diagonal value matrix among the factors of A, B, C, D (roles {an['roles']})", site); return False
    if d[0] == 'bad':
        rep.ob('R11.lambda', 'block:count', False, f'value matrix {dshow(d)}', site); return False
    inverted = SSM._is_inverse_lambda(d)
    want = (X.inv().neg(), X.inv()) if inverted else (X.neg(), X)
    def blk(i, which, f_want, text):
        if len(blocks) <= i:
            rep.ob('R11.lambda', f'block:{which.upper()}', False, f'diagonal has {len(blocks)} block(s): {dshow(d)}', site); return False
        w, vals, f_ = blocks[i]
        ok = (w == which and vals and (f_ == f_want or (inverted is None and f_ in (f_want, f_want.inv()))))
        rep.ob('R11.lambda', f'block:{which.upper()}', bool(ok), f'diagonal block {i + 1} = {f_!r} over {w}_values.values(): {text}', site)
    blk(0, 'c', want[0] if inverted is not None else X.neg(), '-C over c_values.values()' + (' (reciprocal taken)' if inverted else ''))
    blk(1, 'l', want[1] if inverted is not None else X, '+L over l_values.values()' + (' (reciprocal taken)' if inverted else ''))
    rep.ob('R11.lambda', 'block:count', len(blocks) == 2, f'value matrix = {dshow(d)}', site)
    # layout of Lambda equals the state space (same order as DQ columns): from E4 -- every join whose spaces involve both value dictionaries
    interps = SR.analyse(prog)
    # every obligation of the builder in which the state order (the order of c_values / l_values) takes part: products and stacks that join it,
    # and the stores that lay a state row (the incidence of a storage element) at its position
    lam_obs = [o for o in interps['ssm'].obs if 'ord(c_values)' in o.detail or 'ord(l_values)' in o.detail]
    for i, o in enumerate(lam_obs):
        rep.ob('R11.space', f'{o.kind}#{i}', o.verdict, f'{o.detail} [{o.text}]', o.site)
    if len(lam_obs) < 2:
        rep.error('space obligations that join the (c_values, l_values) state order vanished')
    # A = invLambda @ S : shared with R10.formula
    class _Sub:
        def __init__(s, rep): s.rep = rep
        def ob(s, rule, key, verdict, detail='', site='', **kw):
            if (rule == 'R10.formula' and key in ('A', 'ABCD')) or key.startswith('invLambda') or key.startswith('Lambda<-'):
                return s.rep.ob('R11.lambda', 'formula:' + key, verdict, detail, site)
    c10_formulas(_Sub(rep), prog)
