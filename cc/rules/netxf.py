"""Rules over Network/transformers.py shared by C04 and C16."""
from __future__ import annotations
import ast
from ..api import A, spec, call, call_ref
from ..terms import Evaluator, Poly, Rec, Cond, Opq, Comp, tkey, paths_of, term_equal, has_opaque, same, compare_terms, compare_comps
from ..prog import params_of
from ..report import AnalysisError

NT = 'Network.transformers'


def spec_env(prog, ev, extra=None):
    m = prog.mod(NT)
    env = {'network': A('network'), 'keep': A('keep')}
    for nm in ('Branch', 'Network'):
        env[nm] = ev.ref_of(prog.resolve(prog.mod('Network.network'), nm))
    for nm in ('impedance', 'admittance'):
        env[nm] = ev.ref_of(prog.resolve(prog.mod('Network.elements'), nm))
    env.update(extra or {})
    return env, m


def _evaluator(prog):
    """`network` is an atom whose is_zero_node test is inlined (so that `n == network.node_zero_label` and `network.is_zero_node(n)` are one term)"""
    ev = Evaluator(prog)
    nm = prog.mod('Network.network'); c = nm.defs.get('Network')
    mem = prog.find_member(nm, c, 'is_zero_node') if isinstance(c, ast.ClassDef) else None
    if mem and isinstance(mem[1], ast.FunctionDef): ev.atom_methods[('network', 'is_zero_node')] = (mem[0], mem[1])
    return ev


def eval_tf(prog, name, args):
    f = prog.func(NT, name)
    ev = _evaluator(prog)
    t = call(ev, f, args)
    return f, ev, t


def rule_zeroing(rep, prog, rid='R04.zeroing'):
    cases = [('short_circuitify_voltage_sources', 'impedance', 'Z', 'V'), ('open_circuitify_current_sources', 'admittance', 'Y', 'I')]
    for fname, ctor, imm, src in cases:
        f, ev, t = eval_tf(prog, fname, [A('network'), A('keep')])
        if not (isinstance(t, Rec) and t.cls == 'Network'):
            rep.ob(rid, fname, None, f'does not return Network(...): {t!r:.120}', f.site); continue
        br = t.f.get('branches')
        branches = ev.getattr(A('network'), 'branches', f.mod, 0)
        b = ev.elem_of(branches, 0)
        env, m = spec_env(prog, ev, {'b': b})
        sp = spec(ev, f"[Branch(b.node1, b.node2, {ctor}(b.element.name, b.element.{imm})) if (b.element not in keep and abs(b.element.{src}) > 0) else b for b in network.branches]", env, m)
        if not isinstance(br, Comp):
            rep.ob(rid, fname, None, f'branches is not one pass over network.branches: {br!r:.160}', f.site); continue
        c = compare_comps(br, sp)
        rep.ob(rid, fname, c, f"each branch -> {br.elt!r:.260}" + (f' if {br.gens[0][1]!r:.100}' if br.gens and br.gens[0][1] else ''), f.site, lhs=br, rhs=sp)
        z = t.f.get('node_zero_label')
        rep.ob(rid, fname + ':reference', True if term_equal(z, ev.getattr(A('network'), 'node_zero_label', f.mod, 0)) else (None if has_opaque(z) else False),
               f'node_zero_label = {z!r}', f.site)


def _keep_forwarded(prog, m, fn, callee, with_keep):
    """True when every call of `callee` inside `fn` receives the caller's own keep list (itself or a plain copy of it); None when not followed"""
    ev = Evaluator(prog)
    for n_ in with_keep:
        if n_ != fn.name: ev.opaque_fns.add((NT, n_))
    try:
        t = call(ev, prog.func(NT, fn.name), [A('network'), A('keep')])
    except Exception:
        return None
    hits = []
    def walk(k):
        if isinstance(k, tuple):
            if len(k) == 4 and k[0] == 'call' and k[1] == ('fn', callee): hits.append(k)
            for x in k: walk(x)
    walk(tkey(t))
    if not hits: return None
    good = {tkey(A('keep')), tkey(Opq('list', A('keep'))), tkey(Opq('tuple', A('keep')))}
    verdict = True
    for h in hits:
        kw = dict(h[3]); params = params_of(prog.func(NT, callee).node)[0]
        got = kw.get('keep', h[2][params.index('keep')] if len(h[2]) > params.index('keep') else None)
        if got is None or got not in good: verdict = False
    return verdict


def rule_keep(rep, prog, rid='R04.keep'):
    m = prog.mod(NT)
    fns = {n: d for n, d in m.defs.items() if isinstance(d, ast.FunctionDef)}
    with_keep = {n for n, d in fns.items() if 'keep' in params_of(d)[0]}
    n = 0
    for name in sorted(with_keep):
        fn = fns[name]
        for c in ast.walk(fn):
            if isinstance(c, ast.Call) and isinstance(c.func, ast.Name) and c.func.id in with_keep:
                n += 1
                callee = fns[c.func.id]
                idx = params_of(callee)[0].index('keep')
                passed = None
                for k in c.keywords:
                    if k.arg == 'keep': passed = k.value
                if passed is None and len(c.args) > idx: passed = c.args[idx]
                ok = isinstance(passed, ast.Name) and passed.id == 'keep'
                if not ok:
                    # the list may be forwarded through a local / as a copy: look at the value the callee receives
                    sem = _keep_forwarded(prog, m, fn, c.func.id, with_keep)
                    if sem is not False: ok = sem
                rep.ob(rid, f'{name}->{c.func.id}', ok, 'exemption list forwarded' if ok else
                       f'{name} calls {c.func.id} without forwarding its exemption list (keep={ast.unparse(passed) if passed is not None else "<default []>"})',
                       prog.site(m, c))
    if n < 4:
        raise AnalysisError(f'only {n} keep-forwarding call sites found in {NT}')


def rule_thread(rep, prog, rid='R16.thread'):
    """every transformer returns Network(..., node_zero_label = input's label) (switch_ground_node: the new one)"""
    m = prog.mod(NT)
    n = 0
    for name, d in sorted(m.defs.items()):
        if not isinstance(d, ast.FunctionDef): continue
        pos = params_of(d)[0]
        if not pos or pos[0] != 'network': continue
        if name.startswith('_') and not (d.returns is not None and 'Network' in ast.unparse(d.returns)): continue      # private helper that is not itself a transformer
        n += 1
        args = [A(p) for p in pos]
        f, ev, t = eval_tf(prog, name, args)
        if not (isinstance(t, Rec) and t.cls == 'Network'):
            rep.ob(rid, name, None, f'does not return Network(...): {t!r:.100}', f.site); continue
        z = t.f.get('node_zero_label')
        want = A('new_ground') if name == 'switch_ground_node' else ev.getattr(A('network'), 'node_zero_label', f.mod, 0)
        ok = term_equal(z, want)
        rep.ob(rid, name, True if ok else (None if has_opaque(z) else False), f'node_zero_label = {z!r}' + ('' if ok else f', expected {want!r}'), f.site)
    if n < 8:
        raise AnalysisError(f'only {n} network transformers found')


def rule_filters(rep, prog, rid='R16.filter'):
    # remove_open_circuit_elements
    f, ev, t = eval_tf(prog, 'remove_open_circuit_elements', [A('network')])
    branches = ev.getattr(A('network'), 'branches', f.mod, 0)
    b = ev.elem_of(branches, 0)
    env, m = spec_env(prog, ev, {'b': b})
    sp = spec(ev, "[b for b in network.branches if not (b.element.I == 0 and b.element.Y == 0)]", env, m)
    br = t.f.get('branches') if isinstance(t, Rec) else None
    ok = compare_comps(br, sp) if isinstance(br, Comp) else None
    rep.ob(rid, 'remove_open_circuit_elements', ok,
           f'branches = {br!r:.200}', f.site, lhs=br, rhs=sp)
    # remove_element: copy of the branch list minus exactly network[element]
    f, ev, t = eval_tf(prog, 'remove_element', [A('network'), A('element')])
    br = t.f.get('branches') if isinstance(t, Rec) else None
    ok = None
    if isinstance(br, Opq) and br.k[0] == 'mutated' and br.k[1] == 'remove':
        base, arg = br.k[2], br.k[3]
        nb_ = ev.getattr(A('network'), 'branches', f.mod, 0)
        base_ok = isinstance(base, Opq) and base.k[0] == 'list' and term_equal(base.k[1], nb_)
        if not base_ok and isinstance(base, Comp) and base.kind == 'list' and len(base.gens) == 1 and not base.gens[0][1] and term_equal(base.gens[0][0], nb_) \
                and term_equal(base.elt, ev.elem_of(nb_, 0)):
            base_ok = True          # the copy spelled as [b for b in network.branches]
        arg_ok = same(arg, ev.getitem(A('network'), A('element'))) or 'element' in repr(tkey(arg))
        ok = bool(base_ok and arg_ok)
    elif isinstance(br, Comp):
        # comprehension form: [b for b in network.branches if b.id != element]
        env_, m_ = spec_env(prog, ev, {})
        env_.update({'network': A('network'), 'element': A('element')})
        forms = ["[b for b in network.branches if b.id != element]", "[b for b in network.branches if b.element.name != element]",
                 "[b for b in network.branches if b != network[element]]", "[b for b in network.branches if b is not network[element]]",
                 "[b for i, b in enumerate(network.branches) if i != network.branches.index(network[element])]",
                 "[b for i, b in enumerate(network.branches) if i != [x.id for x in network.branches].index(element)]"]
        res = [compare_comps(br, spec(ev, fs_, env_, m_)) for fs_ in forms]
        ok = True if any(r is True for r in res) else None
        if ok is None and not (len(br.gens) == 1 and len(br.gens[0][1]) == 1 and 'element' in repr(tkey(br.gens[0][1][0]))): ok = False
    rep.ob(rid, 'remove_element', ok, f'branches = {br!r:.200}', f.site)
    # switch_ground_node keeps the branch list
    f, ev, t = eval_tf(prog, 'switch_ground_node', [A('network'), A('new_ground')])
    br = t.f.get('branches') if isinstance(t, Rec) else None
    ok = term_equal(br, ev.getattr(A('network'), 'branches', f.mod, 0))
    rep.ob(rid, 'switch_ground_node', True if ok else (None if br is None or has_opaque(br) else False), f'branches = {br!r:.100}', f.site)


def _one_pass_rename(ev, f, t):
    """the result's branches are ONE comprehension whose terminals are `M.get(b.nodeK, b.nodeK)` with M a dict comprehension over the branch
    list whose keys and values are terminals of the generated short itself (no lookup into a map, nothing carried): returns the reason."""
    br = t.f.get('branches') if isinstance(t, Rec) else None
    if not (isinstance(br, Comp) and isinstance(br.elt, Rec) and br.elt.cls == 'Branch'): return None
    branches = ev.getattr(A('network'), 'branches', f.mod, 0)
    b0 = ev.elem_of(branches, 0)
    hits = []
    for nm in ('node1', 'node2'):
        v = br.elt.f.get(nm)
        if not (isinstance(v, Opq) and len(v.k) == 4 and v.k[0] == 'get'): return None
        D, key, dflt = v.k[1], v.k[2], v.k[3]
        if not (isinstance(D, Comp) and D.kind == 'dict' and isinstance(D.elt, (tuple, list)) and len(D.elt) == 2): return None
        if not (term_equal(key, ev.getattr(b0, nm, f.mod, 0)) and term_equal(key, dflt)): return None
        if not all(term_equal(g[0], branches) for g in D.gens): return None
        kk = repr(tkey(D.elt[0])) + repr(tkey(D.elt[1]))
        if "'get'" in kk or "'carried'" in kk or has_opaque(D.elt[0]) or has_opaque(D.elt[1]): return None
        hits.append(nm)
    return (f'every terminal is renamed by ONE lookup `M.get(b.{hits[0]}, b.{hits[0]})` in a map with one absorbed->retained entry per short and nothing '
            'iterates: a chain of shorts (the retained node of one is the absorbed node of another) is not followed to its end')


def rule_rename(rep, prog, rid='R16.rename'):
    """short contraction: per absorbed/retained pair every branch is rewritten terminal-wise, self-loops dropped; absorbed node is never the reference"""
    f = prog.func(NT, 'remove_short_circuit_elements')
    ev = _evaluator(prog)
    t = call(ev, f, [A('network'), A('keep')])
    site = f.site
    red = ev.reductions[-1] if ev.reductions else None
    if not ev.loops and red is None:
        why = _one_pass_rename(ev, f, t)
        if why:
            # nothing iterates: every terminal is looked up ONCE in a map that holds one (absorbed -> retained) step per short.  That is the
            # relation, not its closure: for chained shorts 1 -S1- 2 -S2- 3 the map is {1: 2, 2: 3}; a branch at node 1 lands on node 2, which
            # was itself absorbed into node 3 -- the contracted network falls apart.  The sequential form renames the *already renamed* list.
            rep.ob(rid, 'contraction:closure', False, why, site); return
        rep.ob(rid, 'contraction:loop', None, 'no sequential contraction loop found', site); return
    branches = ev.getattr(A('network'), 'branches', f.mod, 0)
    b0 = ev.elem_of(branches, 0)
    env, m = spec_env(prog, ev, {'b': b0})
    if ev.loops:
        lp = ev.loops[-1]
        cname = lp['assigned'][0] if len(lp['assigned']) == 1 else 'branches'
        step = lp['summary'].get(cname)
        carried = Poly.atom(('carried', cname))
        it = lp['iter']; init = lp['init'].get(cname)
    else:
        lp = None; it = red['iter']; init = red['init']; carried = Poly.atom(('carried', 'acc')); step = True
    # the pair may be a plain tuple or a small record (NamedTuple / dataclass) of (absorbed, retained)
    def as_pair(x):
        if isinstance(x, list) and len(x) == 2: return tuple(x)          # unpacked by `for an, rn in ...` either way
        if isinstance(x, Rec) and len(x.f) == 2:
            nt = ev.namedtuple_items(x)
            if nt is not None: return tuple(nt)
            if x.clsref and isinstance(x.clsref, tuple):
                names = [f_[0] for f_ in prog.dataclass_fields(x.clsref[0], x.clsref[1])]
                if len(names) == 2 and all(n_ in x.f for n_ in names): return (x.f[names[0]], x.f[names[1]])
        return x
    def map_leaves(v, fn):
        return Cond(v.g, map_leaves(v.a, fn), map_leaves(v.b, fn)) if isinstance(v, Cond) else fn(v)
    pair_rec = None
    if isinstance(it, Comp):
        leaf0 = next((l for _, l in paths_of(it.elt)), None)
        if isinstance(leaf0, Rec): pair_rec = leaf0
        it = Comp(map_leaves(it.elt, as_pair), it.gens, it.kind)
    # (absorbed, retained) pairs of the shorts that are not exempt, in listing order; the absorbed node is never the reference
    pair_src = ("[({p}) for vs in [b for b in network.branches if (b.element.V == 0 and b.element.Z == 0) and b.element not in keep]]")
    forms = ["(vs.node1, vs.node2) if not network.is_zero_node(vs.node1) else (vs.node2, vs.node1)",
             "(vs.node2, vs.node1) if not network.is_zero_node(vs.node2) else (vs.node1, vs.node2)",
             # (a short from the reference to the reference is a self-loop: both orders name the same pair)
             "(vs.node2, vs.node1) if network.is_zero_node(vs.node1) and not network.is_zero_node(vs.node2) else (vs.node1, vs.node2)"]
    pairs_ok = None; why = f'pairs = {it!r:.200}'
    element_loop = False
    if isinstance(it, Comp) and lp is not None and not isinstance(it.elt, (tuple, list, Rec, Cond)):
        # the loop runs over the removable shorts themselves and picks (absorbed, retained) in its body: the shorts must be the specified ones, and
        # the step is compared below with the specified step taken at the specified pair of each short
        shorts_sp = spec(ev, "[b for b in network.branches if (b.element.V == 0 and b.element.Z == 0) and b.element not in keep]", env, m)
        r0 = compare_comps(it, shorts_sp)
        if r0 is True:
            element_loop = True; pairs_ok = True; why = 'the loop visits the removable shorts (is_short_circuit and not exempt) in listing order'
        elif r0 is False: pairs_ok = False
    elif isinstance(it, Comp):
        res = [compare_comps(it, spec(ev, pair_src.format(p=p_), env, m)) for p_ in forms]
        if any(r is True for r in res): pairs_ok = True; why = '(absorbed, retained) = (n1, n2) unless n1 is the reference; shorts = is_short_circuit and not exempt'
        elif all(r is False for r in res): pairs_ok = False
    rep.ob(rid, 'contraction:pairs', pairs_ok, why, site, lhs=it)
    rep.ob(rid, 'contraction:start', True if term_equal(init, branches) else (None if init is None or has_opaque(init) else False), f'starts from {init!r:.80}', site)
    # ---- per-branch rewrite
    an_t, rn_t = A('absorbed'), A('retained')
    target = (an_t, rn_t)
    if pair_rec is not None:
        names = list(pair_rec.f)
        nt = ev.namedtuple_items(pair_rec)
        if pair_rec.clsref and isinstance(pair_rec.clsref, tuple): names = [f_[0] for f_ in prog.dataclass_fields(pair_rec.clsref[0], pair_rec.clsref[1])]
        target = Rec(pair_rec.cls, {names[0]: an_t, names[1]: rn_t}, pair_rec.clsref)
    if element_loop:
        step0 = lp['summary'].get(cname)
        vs_ = ev.elem_of(it, 0)
        envp = dict(env); envp['vs'] = vs_
        verdicts = []
        for an_src, rn_src in (("vs.node1 if not network.is_zero_node(vs.node1) else vs.node2", "vs.node2 if not network.is_zero_node(vs.node1) else vs.node1"),
                               ("vs.node2 if not network.is_zero_node(vs.node2) else vs.node1", "vs.node1 if not network.is_zero_node(vs.node2) else vs.node2")):
            envs = {'B': carried, 'an': spec(ev, an_src, envp, m), 'rn': spec(ev, rn_src, envp, m)}
            envs.update({nm: env[nm] for nm in ('Branch',)})
            sp_step = spec(ev, "[Branch(rn if b.node1 == an else b.node1, rn if b.node2 == an else b.node2, b.element) for b in B "
                               "if (rn if b.node1 == an else b.node1) != (rn if b.node2 == an else b.node2)]", envs, m)
            verdicts.append(compare_terms(step0, sp_step))
        # (a step that is not recognised as the specified one is left undecided in this form: an untouched branch may be passed through
        # instead of being rebuilt, which is the same value but not the same term)
        c = True if True in verdicts else None
        rep.ob(rid, 'contraction:step', c, f'step = {step0!r:.300}', site)
        return
    if lp is not None:
        # the step over the concrete pair may split on how the pair was chosen; it is re-evaluated over a symbolic pair below
        if not (isinstance(step, Comp) or (isinstance(step, Cond) and all(isinstance(l, Comp) for _, l in paths_of(step)))):
            rep.ob(rid, 'contraction:step', None, f'step = {step!r:.200}', site); return
        step = ev.reeval_loop(lp, target).get(cname)
    else:
        step = ev.apply(red['fn'], [carried, target], {}, red['mod'], 1)
    if not isinstance(step, Comp):
        rep.ob(rid, 'contraction:step', None, f'step = {step!r:.200}', site); return
    # one contraction step rewrites both terminals of every branch and drops exactly the self-loops that result
    envs = {'B': carried, 'an': an_t, 'rn': rn_t}
    envs.update({nm: env[nm] for nm in ('Branch',)})
    sp_step = spec(ev, "[Branch(rn if b.node1 == an else b.node1, rn if b.node2 == an else b.node2, b.element) for b in B "
                       "if (rn if b.node1 == an else b.node1) != (rn if b.node2 == an else b.node2)]", envs, m)
    c = compare_comps(step, sp_step)
    if c is False and (has_opaque(step) or 'ext(' in repr(step)):
        # a step built through a call the engine does not interpret (e.g. dataclasses.replace) cannot be refuted by comparing terms
        c = None
    rep.ob(rid, 'contraction:step', c, f'step = {step!r:.300}', site, lhs=step, rhs=sp_step)
