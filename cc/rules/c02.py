"""C02 -- DC/AC phasor analysis exact at every frequency (formula / gating / RMS / wiring clauses)."""
from __future__ import annotations
import ast
from ..api import A, spec, call, call_ref
from ..terms import Evaluator, Poly, Rec, Cond, Opq, Comp, tkey, paths_of, term_equal, has_opaque, as_poly
from . import translate as T
from .solutions import solution_rules_c02


def run(rep, prog, tier):
    from .hidden import no_hidden_state
    rep.rule('R02.state', 'no hidden state in the anchored modules: no function writes a module-level object, no caching decorator / cached property')
    no_hidden_state(rep, 'R02.state', prog, ['Circuit/circuit.py', 'Circuit/transformers.py', 'Circuit/solution.py', 'Circuit/components.py', 'Network/elements.py'])
    rep.rule('R02.immittance', 'per kind reached from transformers[k]: R, R+jX, jwC (admittance form), jwL (impedance form), P/V_ref^2, G, G+jB')
    rep.rule('R02.phasor', 'active dc/ac source carries A(cos phi + j sin phi) (phi=0 for dc) with internal R / G; complex sources carry re + j im')
    rep.rule('R02.gate', 'a translator gates iff its kind carries a frequency; inactive voltage kind -> short, current kind -> open, exactly under |w - w_s| > w_resolution')
    rep.rule('R02.rms', 'ComplexSolution.get_* = X under peak_values else X/sqrt(2); DCSolution.get_* = real part; networks built from transform(circuit, w=[self.w])[0] / w=[0]')
    rep.assume('element values are finite; w_resolution >= 0')
    kinds = T.component_kinds(prog)
    tr = T.translators(prog)
    for kind in sorted(T.KIND_SPEC):
        if kind.startswith('periodic'): continue      # harmonics: C07 / C09
        ent = tr.get(kind)
        if ent is None:
            if kind in kinds:
                rep.ob('R02.immittance', kind, False, f"kind '{kind}' is constructible but has no translator: it is absent from every analysis", kinds[kind]['site'])
            continue
        T.check_kind(rep, prog, kind, ent[0], ent[1], kinds.get(kind, {}).get('written', {}), rules=('immittance', 'phasor', 'gate'), pid_rule='R02')
    solution_rules_c02(rep, prog)
