"""Shared rule: no hidden state in the modules a property is anchored in (module-level objects written by functions, `global` rebinding,
caching decorators, cached properties).  A cache keyed on part of the arguments, or a memo on a mutable object, makes an answer depend on
the history of calls -- every property that quantifies over inputs implicitly assumes a fresh evaluation."""
from __future__ import annotations
import ast
from ..effects import cache_decorators
from .c20 import effects_of


def no_hidden_state(rep, rid, prog, rel_prefixes, min_functions=3):
    eff = effects_of(prog)
    n = 0; bad = 0
    for q, f in sorted(prog.funcs.items()):
        if not f.mod.rel.startswith(tuple(rel_prefixes)): continue
        n += 1
        sm = eff.summ[q]
        own = {g: s for g, s in sm.globals_w.items()}
        # a private module-level helper (and the closures it returns) that fills a module-level table is registration code run while the module
        # is imported; every function that CALLS it at run time carries the write in its own summary and is reported there
        root = f
        while root.parent is not None: root = prog.funcs.get(root.parent, root) if isinstance(root.parent, str) else root.parent
        rname = getattr(root.node, 'name', '')
        if root.cls is None and rname.startswith('_') and not rname.startswith('__'): own = {}
        for g, s in sorted(own.items()):
            bad += 1
            rep.ob(rid, f'{q}->{g[0]}.{g[1]}', False, f'writes the module-level object {g[0]}.{g[1]} ({s}): results depend on earlier calls', f.site)
    for q, d, site in cache_decorators(prog):
        f = prog.funcs[q]
        if not f.mod.rel.startswith(tuple(rel_prefixes)): continue
        bad += 1
        rep.ob(rid, f'{q}@{d.split("(")[0]}', False, f'@{d} keeps a result across calls / after the object or its arguments changed', site)
    if n < min_functions:
        rep.ob(rid, 'scope', None, f'only {n} functions found under {list(rel_prefixes)}')
    elif not bad:
        rep.ob(rid, 'no-hidden-state', True, f'{n} functions under {list(rel_prefixes)}: no module-level object is written, no caching decorator')
    return bad
