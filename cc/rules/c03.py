"""C03 -- results are independent of names, listing order, reference node and terminal order (index-space discipline)."""
from __future__ import annotations
import ast
from ..report import AnalysisError
from ..prog import Program
from . import spacerules as SR
from . import c01

SCOPE_REF = ('Network/',)


def literal_label_compares(prog):
    """comparisons of a string literal with something that denotes a node label, inside Network/ (parameter defaults excepted)"""
    hits = []
    for m in prog.modules.values():
        if not m.rel.startswith(SCOPE_REF) and m.rel != 'Network.py': continue
        for n in ast.walk(m.tree):
            if isinstance(n, ast.Compare):
                parts = [n.left] + list(n.comparators)
                lits = [p for p in parts if isinstance(p, ast.Constant) and isinstance(p.value, str)]
                others = [p for p in parts if not isinstance(p, ast.Constant)]
                if lits and any(any(w in ast.unparse(o) for w in ('node', 'label', 'ground')) for o in others):
                    hits.append((m, n))
    return hits


class _Relabel:
    """report obligations of a shared rule under this property's rule id"""
    def __init__(s, rep, rid): s.rep, s.rid = rep, rid
    def ob(s, rule, key, verdict, detail='', site='', **kw): return s.rep.ob(s.rid, f'{rule.split(".")[0]}:{key}', verdict, detail, site)


def run(rep, prog, tier):
    from .hidden import no_hidden_state
    rep.rule('R03.state', 'no hidden state in the anchored modules: no function writes a module-level object, no caching decorator / cached property')
    no_hidden_state(rep, 'R03.state', prog, ['Network/NodalAnalysis/label_mapping.py', 'Network/NodalAnalysis/node_analysis.py', 'Network/NodalAnalysis/state_space_model.py', 'Network/NodalAnalysis/bias_point_analysis.py', 'Circuit/solution.py', 'Circuit/state_space_model.py'])
    rep.rule('R03.space', 'every matrix axis of the steady-state, state-space, transient and port-impedance code is addressed only through the map that laid it out: an index, slice, product or stack never joins two different label spaces (must hold for every label set, not for one naming scheme)')
    rep.rule('R03.layout', 'the linear systems are laid out (non-reference nodes, then ideal voltage sources) x the same; states = c_values then l_values; inputs = current sources then non-inductor voltage sources')
    rep.rule('R03.antisym', 'every incidence site treats node1 / node2 antisymmetrically, so reversing an element flips exactly its own voltage and current')
    rep.rule('R03.ref', 'inside Network/ the reference node is obtained from node_zero_label / is_zero_node only: no string literal is compared with a node label')
    rep.assume('A1: no current source is an inductor (inductors are Z=0, V=0 branches, i.e. of ideal-voltage-source type)')
    rep.assume('maps need not be sorted: only inconsistency between two spaces is a violation')
    interps = SR.analyse(prog)
    n = SR.emit(rep, 'R03.space', interps, ['mna', 'bias', 'ssm', 'model', 'wrapper', 'transient', 'port'])
    rep.count('space_obligations', n)
    if n < 50: rep.error(f'only {n} index-space obligations found')
    from .c10 import layout as layout10
    c01.layout(_Relabel(rep, 'R03.layout'), interps)
    layout10(_Relabel(rep, 'R03.layout'), interps)
    # antisymmetry (shared with C01's sign tables: case analysis on the array-build terms)
    from . import incidence as INC
    for mat, tb in INC.tables(prog).items():
        if 'undecided' in tb:
            rep.ob('R03.antisym', mat, None, f"incidence table of {mat} not decided: {tb['undecided']}", tb.get('site', '')); continue
        a, b_, o = tb['node1'], tb['node2'], tb['other']
        rep.ob('R03.antisym', mat, bool(a == -b_ and a != 0 and o == 0), f'{mat}[node1]={a}, {mat}[node2]={b_}, elsewhere {o}', tb.get('site', ''))
    # reference label
    ctl = Program(root='', sources={'Network/__init__.py': '', 'Network/ctl.py': "def f(network, label):\n    if label != '0':\n        return 1\n    return 0\n"})
    if len(literal_label_compares(ctl)) != 1:
        raise AnalysisError('R03.ref self-check failed: the built-in positive example is not matched')
    hits = literal_label_compares(prog)
    if hits:
        for m, n in hits:
            rep.ob('R03.ref', f'{m.short}:{ast.unparse(n)[:50]}', False, f'node label compared with a string literal: `{ast.unparse(n)[:80]}` -- a differently named reference node is not recognised', prog.site(m, n))
    else:
        rep.ob('R03.ref', 'Network/', True, 'no comparison of a node label with a string literal (positive control matched)')
