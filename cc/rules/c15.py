"""C15 -- saving, reloading and declarative descriptions preserve the circuit: agreement of the repository's own tables."""
from __future__ import annotations
import ast
from ..prog import params_of
from ..report import AnalysisError
from . import translate as T
from .c13 import SYMBOLS

SDL = 'SimpleCircuit.dump_load'
ELM = 'SimpleCircuit.Elements'
SCH = 'SimpleSimulation.schematic'


def symbol_classes(prog):
    """class name -> (ClassDef, type string or None, __init__ parameter list, required parameters)"""
    em = prog.mod(ELM)
    out = {}
    for n, c in em.defs.items():
        if not isinstance(c, ast.ClassDef): continue
        typ = None
        for mm, cc in prog.mro(em, c):
            for x in cc.body:
                if isinstance(x, ast.FunctionDef) and x.name == 'type' and typ is None:
                    r = [y for y in ast.walk(x) if isinstance(y, ast.Return) and isinstance(y.value, ast.Constant)]
                    if r: typ = r[0].value.value
            if typ is not None: break
        init = None
        for mm, cc in prog.mro(em, c):
            init = next((x for x in cc.body if isinstance(x, ast.FunctionDef) and x.name == '__init__'), None)
            if init is not None: break
        params, required = [], []
        if init is not None:
            a = init.args
            pos = [x.arg for x in a.args][1:]
            ndef = len(a.defaults)
            required = pos[:len(pos) - ndef] + [x.arg for x, d in zip(a.kwonlyargs, a.kw_defaults) if d is None]
            params = pos + [x.arg for x in a.kwonlyargs]
        out[n] = (c, typ, params, required)
    return out


def run(rep, prog, tier):
    from .hidden import no_hidden_state
    rep.rule('R15.state', 'no hidden state in the anchored modules: no function writes a module-level object, no caching decorator / cached property')
    no_hidden_state(rep, 'R15.state', prog, ['SimpleCircuit/dump_load.py', 'dump_load.py', 'Circuit/dump_load.py', 'SimpleSimulation/schematic.py'])
    rep.rule('R15.types', 'every key K of simple_circuit_element_types constructs the symbol class whose `type` string is K; every persistable class is a key')
    rep.rule('R15.values', 'for each persistable class the required constructor parameters are covered by {name, reverse} plus the value keys of the component kind its translator produces (after the complex-combination renaming)')
    rep.rule('R15.roundtrip', 'the saved component values are fed back into the symbol constructor on reload: translating the rebuilt symbol reproduces every fed-back value for every combination of the saved flags (reverse, deg, sin)')
    rep.rule('R15.pure', 'the declarative front end does not edit the description dictionaries it is given (only the drawing it builds)')
    rep.rule('R15.fields', 'the fields written by dictify_element are exactly the fields restored by undictify_element; schemdraw (de)serialiser type names agree')
    rep.rule('R15.handlers', 'declarative element_handlers map each type name to its symbol class; direction literal = method called; place_after positions at origin.end')
    rep.assume('NOT DECIDED: equality of the reloaded drawing and of its solution; repeated cycles')
    sm = prog.mod(SDL); em = prog.mod(ELM)
    classes = symbol_classes(prog)
    kinds = T.component_kinds(prog)
    table = prog.table(SDL, 'simple_circuit_element_types')
    if len(table) < 12: rep.error(f'simple_circuit_element_types has {len(table)} entries (16 confirmed)')
    by_type = {typ: n for n, (c, typ, _, _) in classes.items() if typ}
    for key, kn, vn in table:
        site = prog.site(sm, vn)
        # lambda **kwargs: module.Class(**kwargs) | module.Class(**combine_to_complex((a, b), z, kwargs))
        call = vn.body if isinstance(vn, ast.Lambda) else None
        cname = ast.unparse(call.func).split('.')[-1] if isinstance(call, ast.Call) else None
        if cname not in classes:
            rep.ob('R15.types', f'{key}', None, f'entry does not construct a symbol class: {ast.unparse(vn)[:80]}', site); continue
        c, typ, params, required = classes[cname]
        rep.ob('R15.types', f'{key}', typ == key, f"constructs {cname} whose type is '{typ}'" + ('' if typ == key else f" -- a saved '{key}' element is rebuilt as another kind"), site)
        # value keys available on reload: circuit_dict[name] = component.value of the translated kind
        comb = None
        for n in ast.walk(call):
            if isinstance(n, ast.Call) and ast.unparse(n.func).split('.')[-1] == 'combine_to_complex' and len(n.args) >= 2:
                try: comb = (ast.literal_eval(n.args[0]), ast.literal_eval(n.args[1]))
                except Exception: comb = None
        spec = SYMBOLS.get(cname)
        if spec is None:
            if cname in ('Line',): rep.ob('R15.values', key, True, 'wire: no values', site)
            elif cname == 'Admittance':
                rep.info("admittance: loader entry exists but the symbol has no component translator (outside C15's quantifier)")
            else: rep.ob('R15.values', key, None, f'no component kind known for {cname}', site)
            continue
        kind = spec[0]
        written = set(kinds.get(kind, {}).get('written', {}))
        avail = set(written)
        if comb:
            (a, b), z = comb
            if a in avail or b in avail:
                avail -= {a, b}; avail.add(z)
            else:
                rep.ob('R15.values', f'{key}:combine', False, f"combine_to_complex(({a!r}, {b!r}) -> {z!r}) but kind '{kind}' writes {sorted(written)}", site)
        missing = [p for p in required if p not in avail and p not in ('name', 'reverse')]
        # periodic kinds carry wavetype etc. which the symbol does not take: extra keys are passed as **kwargs to schemdraw -- only requireds matter
        rep.ob('R15.values', key, not missing, f"{cname}({', '.join(required)}) rebuilt from value keys {sorted(avail)}" + ('' if not missing else f' -- missing {missing}: reload raises TypeError'), site)
    for typ, cname in sorted(by_type.items()):
        if cname in ('Lamp', 'Switch', 'LabeledLine', 'Node', 'LabelNode', 'RealCurrentSource', 'RealVoltageSource', 'TriangleVoltageSource', 'TriangleCurrentSource', 'SawtoothVoltageSource', 'SawtoothCurrentSource'):
            continue    # not in the persistable set of C15's quantifier
        keys = {k for k, _, _ in table}
        rep.ob('R15.types', f'class:{cname}', typ in keys, f"type '{typ}' " + ('has a loader entry' if typ in keys else 'has NO loader entry: reloaded as a bare Element without values'), prog.site(em, classes[cname][0]))
    roundtrip(rep, prog, classes, table)
    from .c20 import effects_of
    eff = effects_of(prog)
    for q, f in sorted(prog.funcs.items()):
        if not q.startswith('SimpleSimulation.schematic::') or f.parent is not None or f.cls is not None: continue
        sm = eff.summ[q]
        muts = {p_: s_ for p_, s_ in sm.mut.items() if p_ not in ('schematic', 'element', 'se') or q.endswith('::fill') and p_ == 'elements'}
        muts = {p_: s_ for p_, s_ in muts.items() if not (p_ == 'element' and q.endswith(('apply_direction_and_length', 'apply_position')))}
        if getattr(f.node, 'name', '').startswith('_') and not getattr(f.node, 'name', '').startswith('__'): muts = {}        # private helper: charged to its public callers
        if muts:
            p_, s_ = sorted(muts.items())[0]
            rep.ob('R15.pure', f'{q}({p_})', False, f'the declarative description is edited while it is read (`{p_}`): {s_} -- a second use of the same description builds another drawing', f.site)
        else:
            rep.ob('R15.pure', q, True, 'does not write to the description it is given', f.site)
    fields(rep, prog)
    handlers(rep, prog, classes)


def roundtrip(rep, prog, classes, table):
    """reload feeds the SAVED component values back into the symbol constructor (together with the saved flags): translating the rebuilt
    symbol must reproduce the saved value, i.e. value[k](symbol(k = x, flags)) == x for every fed-back key on every flag combination"""
    from ..api import A, call_ref
    from ..terms import Evaluator, Poly, Rec, tkey, compare_terms, paths_of, as_poly
    sm = prog.mod(SDL); em = prog.mod(ELM); tm = prog.mod('SimpleCircuit.CircuitComponentTranslators')
    tmap = {k: vn for k, kn, vn in prog.table('SimpleCircuit.CircuitComponentTranslators', 'circuit_translator_map')}
    for key, kn, vn in table:
        call = vn.body if isinstance(vn, ast.Lambda) else None
        cname = ast.unparse(call.func).split('.')[-1] if isinstance(call, ast.Call) else None
        if cname not in classes or cname not in tmap or cname not in SYMBOLS: continue
        c, typ, params, required = classes[cname]
        site = prog.site(em, c)
        init = next((x for mm, cc in prog.mro(em, c) for x in cc.body if isinstance(x, ast.FunctionDef) and x.name == '__init__'), None)
        ann = {a.arg: ast.unparse(a.annotation) for a in (init.args.args + init.args.kwonlyargs if init is not None else []) if a.annotation is not None}
        ev = Evaluator(prog, real_atoms={p_ for p_, t_ in ann.items() if t_ in ('float', 'int')})
        kw = {p: A(p) for p in params if p not in ('args', 'kwargs')}
        sym = ev.construct(ev.ref_of(('class', em, c)), [], kw, 1)
        if not isinstance(sym, Rec):
            rep.ob('R15.roundtrip', key, None, 'symbol construction not followed', site); continue
        sym.f['is_reverse'] = A('reverse') if 'reverse' in kw else False
        sym.f['name'] = A('name')
        r = prog.resolve_expr(tm, tmap[cname])
        comp = call_ref(ev, r[1], r[2], [sym, A('nodes')])
        leaves = [l for _, l in paths_of(comp)]
        if not leaves or not all(isinstance(l, Rec) and isinstance(l.f.get('value'), dict) for l in leaves):
            rep.ob('R15.roundtrip', key, None, f'translated component not followed: {comp!r:.100}', site); continue
        val = comp.f['value'] if isinstance(comp, Rec) else None
        if val is None:
            rep.ob('R15.roundtrip', key, None, 'component value depends on a guard', site); continue
        # which saved keys are fed back into which constructor parameter
        comb = None
        for n in ast.walk(call):
            if isinstance(n, ast.Call) and ast.unparse(n.func).split('.')[-1] == 'combine_to_complex' and len(n.args) >= 2:
                try: comb = (ast.literal_eval(n.args[0]), ast.literal_eval(n.args[1]))
                except Exception: comb = None
        for k, got in sorted(val.items()):
            if not isinstance(k, str): continue
            if comb and k in comb[0]:
                z = A(comb[1])
                want = ev.fresh().npcall('real' if k == comb[0][0] else 'imag', [z], {})
            elif k in kw: want = kw[k]
            else: continue        # not a constructor parameter: passed through to schemdraw, not fed back
            cmpv = compare_terms(got, want, total=True)
            rep.ob('R15.roundtrip', f'{key}:{k}', cmpv, (f"value['{k}'] of the rebuilt symbol = {got!r:.160}" + ('' if cmpv is True else
                   f" -- not the saved value `{k}`: each save / load cycle re-applies the conversion (degrees, sine reference)")), site, lhs=got, rhs=want)


def fields(rep, prog):
    sm = prog.mod(SDL)
    d = sm.defs.get('dictify_element'); u = sm.defs.get('undictify_element')
    if not isinstance(d, ast.FunctionDef) or not isinstance(u, ast.FunctionDef):
        rep.ob('R15.fields', 'dictify/undictify', None, 'functions not found'); return
    written = {}
    for n in ast.walk(d):
        if isinstance(n, ast.Dict):
            for k, v in zip(n.keys, n.values):
                if isinstance(k, ast.Constant) and isinstance(k.value, str): written[k.value] = ast.unparse(v)
    restored = {}
    ret_name = next((ast.unparse(r.value) for r in ast.walk(u) if isinstance(r, ast.Return) and isinstance(r.value, ast.Name)), 'element')
    for st in ast.walk(u):
        if isinstance(st, ast.Assign) and isinstance(st.targets[0], ast.Attribute) and ast.unparse(st.targets[0].value) == ret_name:
            keys = [s.slice.value for s in ast.walk(st.value) if isinstance(s, ast.Subscript) and isinstance(s.slice, ast.Constant) and isinstance(s.slice.value, str) and s.slice.value != 'values']
            restored[st.targets[0].attr] = keys[-1] if keys else None
    up = [s.slice.value for s in ast.walk(u) if isinstance(s, ast.Subscript) and isinstance(s.slice, ast.Constant) and s.slice.value == '_userparams']
    for fld, src in sorted(written.items()):
        attr = src.split('(')[-1].rstrip(')').split('.')[-1]
        if fld == '_userparams':
            rep.ob('R15.fields', fld, bool(up), 'user parameters are fed back to the constructor', prog.site(sm, u)); continue
        ok = restored.get(attr) == fld or restored.get(fld) == fld
        rep.ob('R15.fields', fld, ok, f"written from e.{attr}, restored to element.{attr if restored.get(attr) == fld else '?'}" if ok else f"field '{fld}' is written by dictify_element but not restored by undictify_element", prog.site(sm, u))
    for attr, key in sorted(restored.items()):
        if key not in written:
            rep.ob('R15.fields', f'restore:{attr}', False, f"undictify_element restores element.{attr} from '{key}', which dictify_element never writes", prog.site(sm, u))
    # head fields: type / name / reverse
    head = {k.arg: ast.unparse(k.value) for n in ast.walk(d) if isinstance(n, ast.Call) and ast.unparse(n.func) == 'SimpleCircuitObjectProperties' for k in n.keywords}
    okh = head.get('type') == 'e.type' and head.get('name') == 'e.name' and head.get('reverse') == 'e.is_reverse'
    rep.ob('R15.fields', 'head', okh, f'{head.keys() and {k: head[k] for k in ("type", "name", "reverse") if k in head}}', prog.site(sm, d))
    p0 = u.args.args[0].arg; p1 = u.args.args[1].arg if len(u.args.args) > 1 else 'circuit_dict'
    src = ast.unparse(u).replace(p0, 'element_dict').replace(p1, 'circuit_dict')
    okr = "element_dict.get('name'" in src and "element_dict.get('reverse'" in src and "element_dict['type']" in src
    rep.ob('R15.fields', 'head:restored', okr, 'name / reverse / type read back', prog.site(sm, u))
    okm = "circuit_dict[element_dict['name']]" in src.replace('"', "'")
    rep.ob('R15.fields', 'values-merged-by-name', okm, 'circuit values are merged by element name', prog.site(sm, u))
    # schemdraw serialiser / deserialiser type names
    ser = prog.table(SDL, 'schemdraw_serializers'); des = prog.table(SDL, 'schemdraw_deserializers')
    ser_objs = {ast.unparse(kn).split('.')[-1] for k, kn, vn in ser if 'schemdraw_object_properties' in ast.unparse(vn)}
    des_objs = set()
    for k, kn, vn in des:
        s = ast.unparse(kn)
        des_objs.add(s.replace('.__name__', '').replace('str(', '').rstrip(')').split('.')[-1])
    rep.ob('R15.fields', 'schemdraw-types', ser_objs == des_objs and len(ser_objs) >= 5, f'serialised {sorted(ser_objs)} / deserialised {sorted(des_objs)}', prog.site(sm, sm.defs['schemdraw_deserializers']))
    # document layout
    da = sm.defs.get('dictify_all'); us = sm.defs.get('undictify_schematic')
    okd = isinstance(da, ast.FunctionDef) and "'circuit'" in ast.unparse(da) and "'simple_circuit'" in ast.unparse(da)
    oku = isinstance(us, ast.FunctionDef) and "['circuit']['components']" in ast.unparse(us) and "['simple_circuit']" in ast.unparse(us)
    rep.ob('R15.fields', 'document', bool(okd and oku), "document = {'circuit', 'simple_circuit'} on both sides", prog.site(sm, da or sm.tree))


def handlers(rep, prog, classes):
    """every declarative element kind is handed to the factory with the symbol class of that kind; directions map to the schemdraw method
    of the same name -- read off the VALUES of the table entries (lambdas, named functions, partials, callable objects alike)"""
    from ..terms import Evaluator, Poly, Ref, Rec, Closure, paths_of, tkey as _tkey
    from ..api import A
    hm = prog.mod(SCH)
    tab = prog.table(SCH, 'element_handlers')
    if len(tab) < 12: rep.error(f'element_handlers has {len(tab)} entries (16 confirmed)')
    ns = prog.module_namespace(hm)
    values = ns.get('element_handlers')
    for key, kn, vn in tab:
        site = prog.site(hm, vn)
        ev = Evaluator(prog); ev.opaque_fns.add((SCH, 'element_factory'))
        hv = None
        if isinstance(values, dict): hv = values.get(key)
        if hv is None and isinstance(vn, ast.Lambda): hv = Closure(vn, {'__parent__': None}, hm, 'λ')
        if hv is None:
            r = prog.resolve_expr(hm, vn)
            hv = ev.ref_of(r) if r else None
        if hv is None:
            rep.ob('R15.handlers', key, None, 'handler value not followed', site); continue
        t = ev.apply(hv, [A('kwargs')], {}, hm, 1)
        cnames = []
        for _, leaf in paths_of(t):
            at = leaf.as_atom() if isinstance(leaf, Poly) else None
            if isinstance(at, tuple) and at[:2] == ('call', ('fn', 'element_factory')) and at[2]:
                c0 = at[2][0]
                cnames.append(c0[3] if isinstance(c0, tuple) and c0[:2] == ('ref', 'class') else repr(c0)[:40])
            elif isinstance(leaf, Rec):
                cnames.append(leaf.cls)         # the factory was followed: the handler constructs this symbol class
            else:
                cnames.append(None)
        if not cnames or any(c is None for c in cnames):
            rep.ob('R15.handlers', key, None, f'handler does not end in element_factory(<symbol class>, ...): {t!r:.100}', site); continue
        typs = {classes.get(c, (None, None))[1] for c in cnames}
        alias = {'line': {'line', 'labeled_line'}, 'node': {'node'}, 'lamp': {None, 'lamp'}}
        ok = typs <= alias.get(key, {key})
        rep.ob('R15.handlers', key, ok, f"-> {cnames} (type {sorted(map(str, typs))})", site)
    f = hm.defs.get('apply_direction_and_length')
    if isinstance(f, ast.FunctionDef):
        n = 0
        for lit in ('right', 'left', 'up', 'down'):
            ev = Evaluator(prog)
            ev.call_fn(f, hm, [A('element'), lit, A('length'), A('unit')], {}, {'__parent__': None}, 1)
            calls = [(m_, a_) for recv, m_, a_, k_, pc_ in ev.atom_calls if recv == 'element' and m_ in ('right', 'left', 'up', 'down')]
            want = _tkey(A('length') * A('unit'))
            ok = len(calls) == 1 and calls[0][0] == lit and len(calls[0][1]) == 1 and _tkey(calls[0][1][0]) == want
            n += 1
            rep.ob('R15.handlers', f'direction:{lit}', True if ok else (None if not calls else False), f"'{lit}' -> {[('.' + m_ + '()') for m_, _ in calls]}", prog.site(hm, f))
    g = hm.defs.get('apply_position')
    okp = None
    if isinstance(g, ast.FunctionDef):
        ev = Evaluator(prog)
        t = ev.call_fn(g, hm, [A('element'), A('origin')], {}, {'__parent__': None}, 1)
        leaves = [l for pc, l in paths_of(t) if not any(v for _, v in pc)] or [l for _, l in paths_of(t)]
        want = Poly.atom(('call', ('.', 'element', 'at'), (_tkey(ev.getattr(A('origin'), 'end', hm, 0)),), ()))
        okp = any(_tkey(l) == _tkey(want) for _, l in paths_of(t))
        if not okp and any('?' in repr(_tkey(l)) for _, l in paths_of(t)): okp = None
    rep.ob('R15.handlers', 'place_after', okp, 'positioned at the end terminal of the referenced element', prog.site(hm, g) if g is not None else '')
    h = hm.defs.get('element_factory')
    okf = None
    if isinstance(h, ast.FunctionDef):
        ev = Evaluator(prog)
        t = ev.call_fn(h, hm, [A('cls'), A('name'), A('reverse')], {'extra': A('extra')}, {'__parent__': None}, 1)
        at = t.as_atom() if isinstance(t, Poly) else None
        if isinstance(at, tuple) and at[:2] == ('call', 'cls'):
            kw = dict(at[3])
            okf = kw.get('name') == _tkey(A('name')) and kw.get('reverse') == _tkey(A('reverse')) and kw.get('extra') == _tkey(A('extra')) and not at[2]
    rep.ob('R15.handlers', 'factory', okf, 'factory forwards name, reverse and all values', prog.site(hm, h) if h is not None else '')
