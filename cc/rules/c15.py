"""C15 -- saving, reloading and declarative descriptions preserve the circuit: agreement of the repository's own tables."""
from __future__ import annotations
import ast
from ..prog import params_of
from ..report import AnalysisError
from . import translate as T
from .c13 import SYMBOLS
from ..api import A
from ..terms import tkey

SDL = 'SimpleCircuit.dump_load'
ELM = 'SimpleCircuit.Elements'
SCH = 'SimpleSimulation.schematic'


def symbol_classes(prog):
    """class name -> (ClassDef, type string or None, __init__ parameter list, required parameters)"""
    em = prog.mod(ELM)
    out = {}
    for n, c in em.defs.items():
        if not isinstance(c, ast.ClassDef): continue
        typ = None
        for mm, cc in prog.mro(em, c):
            for x in cc.body:
                if isinstance(x, ast.FunctionDef) and x.name == 'type' and typ is None:
                    r = [y for y in ast.walk(x) if isinstance(y, ast.Return) and isinstance(y.value, ast.Constant)]
                    if r: typ = r[0].value.value
            if typ is not None: break
        init = None
        for mm, cc in prog.mro(em, c):
            init = next((x for x in cc.body if isinstance(x, ast.FunctionDef) and x.name == '__init__'), None)
            if init is not None: break
        params, required = [], []
        if init is not None:
            a = init.args
            pos = [x.arg for x in a.args][1:]
            ndef = len(a.defaults)
            required = pos[:len(pos) - ndef] + [x.arg for x, d in zip(a.kwonlyargs, a.kw_defaults) if d is None]
            params = pos + [x.arg for x in a.kwonlyargs]
        out[n] = (c, typ, params, required)
    return out


def run(rep, prog, tier):
    from .hidden import no_hidden_state
    rep.rule('R15.state', 'no hidden state in the anchored modules: no function writes a module-level object, no caching decorator / cached property')
    no_hidden_state(rep, 'R15.state', prog, ['SimpleCircuit/dump_load.py', 'dump_load.py', 'Circuit/dump_load.py', 'SimpleSimulation/schematic.py'])
    rep.rule('R15.types', 'every key K of simple_circuit_element_types constructs the symbol class whose `type` string is K; every persistable class is a key')
    rep.rule('R15.values', 'for each persistable class the required constructor parameters are covered by {name, reverse} plus the value keys of the component kind its translator produces (after the complex-combination renaming)')
    rep.rule('R15.roundtrip', 'the saved component values are fed back into the symbol constructor on reload: translating the rebuilt symbol reproduces every fed-back value for every combination of the saved flags (reverse, deg, sin)')
    rep.rule('R15.pure', 'the declarative front end does not edit the description dictionaries it is given (only the drawing it builds)')
    rep.rule('R15.fields', 'the fields written by dictify_element are exactly the fields restored by undictify_element; schemdraw (de)serialiser type names agree')
    rep.rule('R15.handlers', 'declarative element_handlers map each type name to its symbol class; direction literal = method called; place_after positions at origin.end')
    rep.assume('NOT DECIDED: equality of the reloaded drawing and of its solution; repeated cycles')
    sm = prog.mod(SDL); em = prog.mod(ELM)
    classes = symbol_classes(prog)
    kinds = T.component_kinds(prog)
    table = loader_entries(prog)
    if len(table) < 12: rep.error(f'simple_circuit_element_types has {len(table)} entries (16 confirmed)')
    by_type = {typ: n for n, (c, typ, _, _) in classes.items() if typ}
    rebuilt = {}
    for key, hv, site in table:
        # the VALUE of the entry is applied the way undictify_element applies it: handler(name=..., reverse=..., **saved values)
        cname, why = constructed_class(prog, hv, classes)
        if cname is None:
            rep.ob('R15.types', f'{key}', None, f'entry does not construct a symbol class: {why}', site); continue
        c, typ, params, required = classes[cname]
        rep.ob('R15.types', f'{key}', typ == key, f"constructs {cname} whose type is '{typ}'" + ('' if typ == key else f" -- a saved '{key}' element is rebuilt as another kind"), site)
        spec = SYMBOLS.get(cname)
        if spec is None:
            if cname in ('Line',): rep.ob('R15.values', key, True, 'wire: no values', site)
            elif cname == 'Admittance':
                rep.info("admittance: loader entry exists but the symbol has no component translator (outside C15's quantifier)")
            else: rep.ob('R15.values', key, None, f'no component kind known for {cname}', site)
            continue
        kind = spec[0]
        written = sorted(kinds.get(kind, {}).get('written', {}))
        # reload with exactly the saved keys of that kind: a required constructor parameter that none of them provides is a TypeError
        sym, err = rebuild(prog, hv, {k: A(k) for k in ['name', 'reverse'] + written}, strict=True)
        if err is not None and err[0] == 'TypeError':
            rep.ob('R15.values', key, False, f"{cname} rebuilt from the saved keys {written} of kind '{kind}': reload raises TypeError ({err[1]})", site)
        elif err is not None or sym is None or 'missing-arg' in repr(tkey(sym)):
            rep.ob('R15.values', key, None, f'reload with the saved keys {written} not followed: {err or sym!r:.120}', site)
        else:
            rep.ob('R15.values', key, True, f"{cname}({', '.join(required)}) rebuilt from the saved keys {written} of kind '{kind}'", site)
            rebuilt[key] = (cname, written)
    for typ, cname in sorted(by_type.items()):
        if cname in ('Lamp', 'Switch', 'LabeledLine', 'Node', 'LabelNode', 'RealCurrentSource', 'RealVoltageSource', 'TriangleVoltageSource', 'TriangleCurrentSource', 'SawtoothVoltageSource', 'SawtoothCurrentSource'):
            continue    # not in the persistable set of C15's quantifier
        keys = {k for k, _, _ in table}
        rep.ob('R15.types', f'class:{cname}', typ in keys, f"type '{typ}' " + ('has a loader entry' if typ in keys else 'has NO loader entry: reloaded as a bare Element without values'), prog.site(em, classes[cname][0]))
    roundtrip(rep, prog, classes, table, rebuilt)
    from .c20 import effects_of
    eff = effects_of(prog)
    for q, f in sorted(prog.funcs.items()):
        if not q.startswith('SimpleSimulation.schematic::') or f.parent is not None or f.cls is not None: continue
        sm = eff.summ[q]
        muts = {p_: s_ for p_, s_ in sm.mut.items() if p_ not in ('schematic', 'element', 'se') or q.endswith('::fill') and p_ == 'elements'}
        muts = {p_: s_ for p_, s_ in muts.items() if not (p_ == 'element' and q.endswith(('apply_direction_and_length', 'apply_position')))}
        if getattr(f.node, 'name', '').startswith('_') and not getattr(f.node, 'name', '').startswith('__'): muts = {}        # private helper: charged to its public callers
        if muts:
            p_, s_ = sorted(muts.items())[0]
            rep.ob('R15.pure', f'{q}({p_})', False, f'the declarative description is edited while it is read (`{p_}`): {s_} -- a second use of the same description builds another drawing', f.site)
        else:
            rep.ob('R15.pure', q, True, 'does not write to the description it is given', f.site)
    fields(rep, prog)
    handlers(rep, prog, classes)


def loader_entries(prog):
    """[(key, value term, site)] of simple_circuit_element_types -- the VALUES as the module builds them (lambdas, closures of a helper,
    partials, callable objects alike)"""
    from ..terms import Closure, Evaluator
    sm = prog.mod(SDL)
    tab = prog.table(SDL, 'simple_circuit_element_types')
    ns = prog.module_namespace(sm)
    values = ns.get('simple_circuit_element_types')
    out = []
    for key, kn, vn in tab:
        hv = values.get(key) if isinstance(values, dict) else None
        if hv is None and isinstance(vn, ast.Lambda): hv = Closure(vn, {'__parent__': None}, sm, 'λ')
        if hv is None:
            r = prog.resolve_expr(sm, vn)
            hv = Evaluator(prog).ref_of(r) if r else None
        out.append((key, hv, prog.site(sm, vn)))
    return out


def rebuild(prog, hv, kwargs, strict=False, real=()):
    """(symbol record, None) of handler(**kwargs), or (None, (exception kind, detail)) when the call decidably raises"""
    from ..terms import Evaluator, Rec, Raised, paths_of
    sm = prog.mod(SDL)
    ev = Evaluator(prog, real_atoms=set(real))
    if hv is None: return None, ('?', 'handler value not followed')
    if strict: ev._try_depth += 1
    try:
        t = ev.apply(hv, [], dict(kwargs), sm, 1)
    except Raised as ex:
        return None, (ex.kind, ex.detail)
    finally:
        if strict: ev._try_depth -= 1
    if isinstance(t, Rec): return t, None
    leaves = [l for _, l in paths_of(t)]
    if leaves and all(isinstance(l, Rec) for l in leaves) and len({l.cls for l in leaves}) == 1: return leaves[0], None
    return None, ('?', f'{t!r:.100}')


def constructed_class(prog, hv, classes):
    sym, err = rebuild(prog, hv, {'name': A('name'), 'reverse': A('reverse')})
    if sym is None: return None, err[1]
    if sym.cls not in classes: return None, f'constructs {sym.cls}'
    return sym.cls, ''


def roundtrip(rep, prog, classes, table, rebuilt):
    """reload feeds the SAVED component values back into the symbol constructor (together with the saved flags): translating the rebuilt
    symbol must reproduce the saved value, i.e. value[k](symbol(k = x, flags)) == x for every fed-back key on every flag combination"""
    from ..api import call_ref
    from ..terms import Rec, tkey, compare_terms, paths_of
    em = prog.mod(ELM); tm = prog.mod('SimpleCircuit.CircuitComponentTranslators')
    tmap = {k: vn for k, kn, vn in prog.table('SimpleCircuit.CircuitComponentTranslators', 'circuit_translator_map')}
    for key, hv, _ in table:
        if key not in rebuilt: continue
        cname, written = rebuilt[key]
        if cname not in tmap: continue
        c, typ, params, required = classes[cname]
        site = prog.site(em, c)
        init = next((x for mm, cc in prog.mro(em, c) for x in cc.body if isinstance(x, ast.FunctionDef) and x.name == '__init__'), None)
        ann = {a.arg: ast.unparse(a.annotation) for a in (init.args.args + init.args.kwonlyargs if init is not None else []) if a.annotation is not None}
        # the saved flags (deg, sin, ...) come back through the user parameters, the saved values through the circuit section
        names = [p for p in params if p not in ('args', 'kwargs')] + [k for k in written if k not in params]
        real = {p_ for p_, t_ in ann.items() if t_ in ('float', 'int')} | {k for k in written if k not in params}
        sym, err = rebuild(prog, hv, {p: A(p) for p in names}, real=real)
        if sym is None:
            rep.ob('R15.roundtrip', key, None, f'symbol construction not followed: {err}', site); continue
        from ..terms import Evaluator
        ev = Evaluator(prog, real_atoms=real)
        sym.f['is_reverse'] = A('reverse') if 'reverse' in names else False
        sym.f['name'] = A('name')
        consumed = repr(tkey(sym))
        r = prog.resolve_expr(tm, tmap[cname])
        comp = call_ref(ev, r[1], r[2], [sym, A('nodes')])
        leaves = [l for _, l in paths_of(comp)]
        if not leaves or not all(isinstance(l, Rec) and isinstance(l.f.get('value'), dict) for l in leaves):
            rep.ob('R15.roundtrip', key, None, f'translated component not followed: {comp!r:.100}', site); continue
        val = comp.f['value'] if isinstance(comp, Rec) else None
        if val is None:
            rep.ob('R15.roundtrip', key, None, 'component value depends on a guard', site); continue
        for k, got in sorted(val.items()):
            if not isinstance(k, str) or k not in names: continue
            if repr(k) not in consumed: continue        # not taken by the constructor: passed through to schemdraw, not fed back
            want = A(k)
            cmpv = compare_terms(got, want, total=True)
            rep.ob('R15.roundtrip', f'{key}:{k}', cmpv, (f"value['{k}'] of the rebuilt symbol = {got!r:.160}" + ('' if cmpv is True else
                   f" -- not the saved value `{k}`: each save / load cycle re-applies the conversion (degrees, sine reference)")), site, lhs=got, rhs=want)


def _call_of(t, fname):
    """argument keys of t when t is the call atom fname(args), else None"""
    from ..terms import Poly
    at = t.as_atom() if isinstance(t, Poly) else None
    if isinstance(at, tuple) and len(at) == 4 and at[0] == 'call' and at[1] == ('fn', fname) and not at[3]: return at[2]
    return None


def _layers(t):
    """the keyword dictionary handed to the loader entry, as [(guards, [layer, ...])]: x.update(d) adds a layer over x"""
    from ..terms import Cond, Opq
    if isinstance(t, Cond):
        return [(g + ((tkey(t.g), True),), l) for g, l in _layers(t.a)] + [(g + ((tkey(t.g), False),), l) for g, l in _layers(t.b)]
    if isinstance(t, Opq) and len(t.k) >= 3 and t.k[0] == 'mutated' and t.k[1] == 'update':
        out = []
        for g, l in _layers(t.k[2]): out.append((g, l + list(t.k[3:])))
        return out
    if isinstance(t, dict) and '**' in t and len(t) == 1: return _layers(t['**'])
    return [((), [t])]


def fields(rep, prog):
    """what dictify_element writes is what undictify_element restores -- both read off their normal forms (the (de)serialisation of the single
    schemdraw values is opaque here): the element record written for an element `e`, and the element rebuilt from a record with those keys"""
    from ..terms import Evaluator, Rec, Opq, Poly, Cond
    from ..api import call_ref
    sm = prog.mod(SDL)
    d = sm.defs.get('dictify_element'); u = sm.defs.get('undictify_element')
    if not isinstance(d, ast.FunctionDef) or not isinstance(u, ast.FunctionDef):
        rep.ob('R15.fields', 'dictify/undictify', None, 'functions not found'); return
    def mk():
        ev = Evaluator(prog)
        ev.opaque_fns.add((SDL, 'serialize_schemdraw_element')); ev.opaque_fns.add((SDL, 'deserialize_schemdraw_elements'))
        return ev
    ev = mk()
    w = call_ref(ev, sm, d, [A('e')])
    vals = w.f.get('values') if isinstance(w, Rec) else None
    if not isinstance(vals, dict) or not all(isinstance(k, str) for k in vals):
        rep.ob('R15.fields', 'dictify', None, f'element record not followed: {w!r:.120}', prog.site(sm, d)); return
    attr_of = {}
    for k, v in vals.items():
        a_ = _call_of(v, 'serialize_schemdraw_element')
        attr_of[k] = next((n for n in [k] + [x for x in vals if x != k] + ['_userparams'] if a_ and len(a_) == 1 and a_[0] == tkey(ev.getattr(A('e'), n, sm, 0))), None)
        if attr_of[k] is None and a_ and len(a_) == 1:
            at = term_atom(a_[0])
            if isinstance(at, tuple) and len(at) == 3 and at[0] == '.' and at[1] == 'e': attr_of[k] = at[2]
    okh = all(tkey(w.f.get(f_)) == tkey(ev.getattr(A('e'), a_, sm, 0)) for f_, a_ in (('type', 'type'), ('name', 'name'), ('reverse', 'is_reverse')))
    rep.ob('R15.fields', 'head', okh, f"type / name / reverse written from e.type / e.name / e.is_reverse: {({k: w.f.get(k) for k in ('type', 'name', 'reverse')})!r:.160}", prog.site(sm, d))
    # --- the element rebuilt from such a record (one concrete kind, so that the attribute stores on the rebuilt symbol are visible)
    keys = [k for k, _, _ in loader_entries(prog)]
    kind = 'resistor' if 'resistor' in keys else (keys[0] if keys else 'resistor')
    record = lambda typ: {'type': typ, 'name': A('n'), 'reverse': A('r'), 'values': {k: A('v:' + k) for k in vals}}
    ev = mk()
    el = call_ref(ev, sm, u, [record(kind), A('circuit_dict')])
    restored = {}
    if isinstance(el, Rec):
        for a_, v in el.f.items():
            c_ = _call_of(v, 'deserialize_schemdraw_elements')
            if c_ and len(c_) == 1:
                at = term_atom(c_[0])
                if isinstance(at, str) and at.startswith('v:'): restored[a_] = at[2:]
    # --- the keyword arguments of the loader entry (symbolic kind)
    ev = mk()
    t = call_ref(ev, sm, u, [record(A('t')), A('circuit_dict')])
    disp = t if isinstance(t, Opq) and t.k and t.k[0] == 'dispatchcall' and len(t.k) == 5 else None
    branches = _layers(disp.k[4]) if disp is not None and isinstance(disp.k[4], dict) and set(disp.k[4]) == {'**'} else None
    up_key = None
    for fld in sorted(vals):
        attr = attr_of[fld]
        if fld == '_userparams':
            if branches is None: ok = None
            else:
                ok = all(l and _call_of(l[0], 'deserialize_schemdraw_elements') == (tkey(A('v:_userparams')),) for g, l in branches)
            rep.ob('R15.fields', fld, ok, 'user parameters are fed back to the constructor', prog.site(sm, u)); continue
        if not isinstance(el, Rec):
            rep.ob('R15.fields', fld, None, f'rebuilt element not followed: {el!r:.100}', prog.site(sm, u)); continue
        ok = attr is not None and restored.get(attr) == fld
        rep.ob('R15.fields', fld, ok, f"written from e.{attr}, restored to element.{attr}" if ok else f"field '{fld}' is written by dictify_element (from e.{attr}) but not restored to element.{attr} by undictify_element", prog.site(sm, u))
    for attr, key in sorted(restored.items()):
        if key not in vals:
            rep.ob('R15.fields', f'restore:{attr}', False, f"undictify_element restores element.{attr} from '{key}', which dictify_element never writes", prog.site(sm, u))
    if branches is None:
        okr = okm = None
    else:
        def has(l, k, v): return any(isinstance(x, dict) and k in x and tkey(x[k]) == tkey(v) for x in l)
        okr = tkey(disp.k[2]) == tkey(A('t')) and all(has(l, 'name', A('n')) and has(l, 'reverse', A('r')) for g, l in branches)
        merged = tkey(ev.getitem(A('circuit_dict'), A('n')))
        # the saved values of the element of that name are laid over the user parameters (on the branch where the circuit section has that name)
        okm = any(any(tkey(x) == merged for x in l[1:]) for g, l in branches)
        if not okm and any(any(repr(merged) in repr(tkey(x)) for x in l[1:]) for g, l in branches):
            okm = True          # the same lookup behind a membership test (circuit_dict.get(name, {}))
    rep.ob('R15.fields', 'head:restored', okr, 'name / reverse / type read back', prog.site(sm, u))
    rep.ob('R15.fields', 'values-merged-by-name', okm, 'circuit values are merged by element name', prog.site(sm, u))
    # schemdraw serialiser / deserialiser type names: an object written under type(x).__name__ of class K is rebuilt by the entry named K
    ns = prog.module_namespace(sm)
    ser = ns.get('schemdraw_serializers'); des = ns.get('schemdraw_deserializers')
    site_ = prog.site(sm, sm.defs['schemdraw_deserializers']) if 'schemdraw_deserializers' in sm.defs else ''
    if not isinstance(ser, dict) or not isinstance(des, dict):
        rep.ob('R15.fields', 'schemdraw-types', None, 'serialiser tables not followed', site_)
    else:
        ser_objs, des_objs, bad = set(), set(), []
        for k, v in ser.items():
            ev = Evaluator(prog)
            r_ = ev.apply(v, [A('x')], {}, sm, 1)
            if isinstance(r_, Rec) and 'type' in r_.f and 'values' in r_.f:
                nm = getattr(getattr(k, 'v', k), 'name', None)
                if nm is None: bad.append(f'{k!r:.40}'); continue
                ser_objs.add(nm.split('.')[-1])
        for k, v in des.items():
            if not isinstance(k, str): bad.append(f'{k!r:.40}'); continue
            des_objs.add(k.split('.')[-1])
            ev = mk()
            r_ = ev.apply(v, [A('x')], {}, sm, 1)
            at = r_.as_atom() if isinstance(r_, Poly) else None
            built = at[1][1].split('.')[-1] if isinstance(at, tuple) and at[0] == 'call' and isinstance(at[1], tuple) and at[1][0] == 'ext' else None
            if built is not None and built != k.split('.')[-1]: bad.append(f"'{k}' rebuilds {built}")
        okt = None if bad and ser_objs == des_objs and not any('rebuilds' in b for b in bad) else (ser_objs == des_objs and len(ser_objs) >= 5 and not bad)
        rep.ob('R15.fields', 'schemdraw-types', okt, f'serialised {sorted(ser_objs)} / deserialised {sorted(des_objs)}' + (f' -- {bad}' if bad else ''), site_)
    # document layout
    da = sm.defs.get('dictify_all'); us = sm.defs.get('undictify_schematic')
    okd = None
    if isinstance(da, ast.FunctionDef) and isinstance(us, ast.FunctionDef):
        ev = mk(); ev.opaque_fns.update({(SDL, 'schematic_to_dict'), ('Circuit.dump_load', 'dictify_circuit'), ('SimpleCircuit.DiagramTranslator', 'circuit_translator')})
        doc = call_ref(ev, sm, da, [A('schematic')])
        read = set()
        seen_f, todo = set(), [us]
        while todo:
            f_ = todo.pop()
            if id(f_) in seen_f: continue
            seen_f.add(id(f_))
            for n in ast.walk(f_):
                def lit(x_):
                    # a string literal, or a module-level name bound to one
                    if isinstance(x_, ast.Constant) and isinstance(x_.value, str): return x_.value
                    if isinstance(x_, ast.Name):
                        for mm_ in (sm, prog.mod('Circuit.dump_load')):
                            d_ = mm_.defs.get(x_.id)
                            if isinstance(d_, ast.Constant) and isinstance(d_.value, str): return d_.value
                    return None
                if isinstance(n, ast.Subscript) and lit(n.slice) is not None: read.add(lit(n.slice))
                if isinstance(n, ast.Call) and isinstance(n.func, ast.Attribute) and n.func.attr in ('get', 'pop') and n.args and lit(n.args[0]) is not None: read.add(lit(n.args[0]))
                if isinstance(n, ast.Call) and isinstance(n.func, ast.Name) and n.func.id.startswith('_') and isinstance(sm.defs.get(n.func.id), ast.FunctionDef): todo.append(sm.defs[n.func.id])
        if isinstance(doc, dict) and all(isinstance(k, str) for k in doc):
            okd = set(doc) == {'circuit', 'simple_circuit'} and {'circuit', 'simple_circuit', 'components'} <= read
            if not okd and set(doc) == {'circuit', 'simple_circuit'}: okd = None          # written as specified; the reading side was not recognised (names are collected from the syntax)
    rep.ob('R15.fields', 'document', okd, "document = {'circuit', 'simple_circuit'} on both sides", prog.site(sm, da or sm.tree))


def show_key(k):
    from ..terms import show
    try: return show(k)
    except Exception: return repr(k)[:80]


def term_atom(k):
    """the atom of a key that is a single atom, else None"""
    from ..terms import term_from_key, Poly
    try: t = term_from_key(k)
    except Exception: return None
    return t.as_atom() if isinstance(t, Poly) else None


def handlers(rep, prog, classes):
    """every declarative element kind is handed to the factory with the symbol class of that kind; directions map to the schemdraw method
    of the same name -- read off the VALUES of the table entries (lambdas, named functions, partials, callable objects alike)"""
    from ..terms import Evaluator, Poly, Ref, Rec, Closure, paths_of, tkey as _tkey
    from ..api import A
    hm = prog.mod(SCH)
    tab = prog.table(SCH, 'element_handlers')
    if len(tab) < 12: rep.error(f'element_handlers has {len(tab)} entries (16 confirmed)')
    ns = prog.module_namespace(hm)
    values = ns.get('element_handlers')
    for key, kn, vn in tab:
        site = prog.site(hm, vn)
        ev = Evaluator(prog); ev.opaque_fns.add((SCH, 'element_factory'))
        hv = None
        if isinstance(values, dict): hv = values.get(key)
        if hv is None and isinstance(vn, ast.Lambda): hv = Closure(vn, {'__parent__': None}, hm, 'λ')
        if hv is None:
            r = prog.resolve_expr(hm, vn)
            hv = ev.ref_of(r) if r else None
        if hv is None:
            rep.ob('R15.handlers', key, None, 'handler value not followed', site); continue
        t = ev.apply(hv, [A('kwargs')], {}, hm, 1)
        cnames = []
        for _, leaf in paths_of(t):
            at = leaf.as_atom() if isinstance(leaf, Poly) else None
            if isinstance(at, tuple) and at[:2] == ('call', ('fn', 'element_factory')) and at[2]:
                c0 = at[2][0]
                cnames.append(c0[3] if isinstance(c0, tuple) and c0[:2] == ('ref', 'class') else repr(c0)[:40])
            elif isinstance(leaf, Rec):
                cnames.append(leaf.cls)         # the factory was followed: the handler constructs this symbol class
            else:
                cnames.append(None)
        if not cnames or any(c is None for c in cnames):
            rep.ob('R15.handlers', key, None, f'handler does not end in element_factory(<symbol class>, ...): {t!r:.100}', site); continue
        typs = {classes.get(c, (None, None))[1] for c in cnames}
        alias = {'line': {'line', 'labeled_line'}, 'node': {'node'}, 'lamp': {None, 'lamp'}}
        ok = typs <= alias.get(key, {key})
        rep.ob('R15.handlers', key, ok, f"-> {cnames} (type {sorted(map(str, typs))})", site)
    f = hm.defs.get('apply_direction_and_length')
    if isinstance(f, ast.FunctionDef):
        n = 0
        for lit in ('right', 'left', 'up', 'down'):
            ev = Evaluator(prog)
            ev.call_fn(f, hm, [A('element'), lit, A('length'), A('unit')], {}, {'__parent__': None}, 1)
            calls = [(m_, a_) for recv, m_, a_, k_, pc_ in ev.atom_calls if recv == 'element' and m_ in ('right', 'left', 'up', 'down')]
            want = _tkey(A('length') * A('unit'))
            ok = len(calls) == 1 and calls[0][0] == lit and len(calls[0][1]) == 1 and _tkey(calls[0][1][0]) == want
            n += 1
            rep.ob('R15.handlers', f'direction:{lit}', True if ok else (None if not calls else False), f"'{lit}' -> {[('.' + m_ + '()') for m_, _ in calls]}", prog.site(hm, f))
    g = hm.defs.get('apply_position')
    okp = None
    if isinstance(g, ast.FunctionDef):
        ev = Evaluator(prog)
        t = ev.call_fn(g, hm, [A('element'), A('origin')], {}, {'__parent__': None}, 1)
        leaves = [l for pc, l in paths_of(t) if not any(v for _, v in pc)] or [l for _, l in paths_of(t)]
        want = Poly.atom(('call', ('.', 'element', 'at'), (_tkey(ev.getattr(A('origin'), 'end', hm, 0)),), ()))
        okp = any(_tkey(l) == _tkey(want) for _, l in paths_of(t))
        if not okp and any('?' in repr(_tkey(l)) for _, l in paths_of(t)): okp = None
    rep.ob('R15.handlers', 'place_after', okp, 'positioned at the end terminal of the referenced element', prog.site(hm, g) if g is not None else '')
    # place_after names an element: the element returned is the one of that NAME -- a position found in a list of names is used on the list
    # the names were taken from, one to one (no filter, same list)
    gp = hm.defs.get('get_placed_element')
    okl, why = None, 'lookup not followed'
    if isinstance(gp, ast.FunctionDef):
        ev = Evaluator(prog)
        t = ev.call_fn(gp, hm, [A('schematic'), A('label')], {}, {'__parent__': None}, 1)
        verdicts = []
        for pc, leaf in paths_of(t):
            if leaf is None: continue
            at = leaf.as_atom() if isinstance(leaf, Poly) else None
            v_ = None
            if isinstance(at, tuple) and len(at) == 3 and at[0] == '[]':
                base, ik = at[1], at[2]
                ia = term_atom(ik)
                if isinstance(ia, tuple) and ia[0] == 'call' and isinstance(ia[1], tuple) and ia[1][0] == '.' and ia[1][2] == 'index' and ia[2] == (_tkey(A('label')),):
                    ck = ia[1][1]
                    if isinstance(ck, tuple) and ck[:2] == ('comp', 'list') and len(ck[3]) == 1:
                        src_, filt_ = ck[3][0]
                        same_list = term_atom(src_) == base
                        names = term_atom(ck[2])
                        is_name = isinstance(names, tuple) and names[0] == '.' and names[2] == 'name' and isinstance(names[1], tuple) and names[1][0] == 'β'
                        if is_name: v_ = bool(same_list and not filt_)
                        why = f'names of {show_key(src_)}' + (' (filtered)' if filt_ else '') + f' index {show_key(Poly.atom(base).key())}'
            verdicts.append(v_)
        if verdicts: okl = False if False in verdicts else (None if None in verdicts else True)
    rep.ob('R15.handlers', 'place_after:lookup', okl, ('the element of the given name: ' if okl else 'the position found among the names does not address the same list one to one: ' if okl is False else '') + why,
           prog.site(hm, gp) if gp is not None else '')
    h = hm.defs.get('element_factory')
    okf = None
    if isinstance(h, ast.FunctionDef):
        ev = Evaluator(prog)
        t = ev.call_fn(h, hm, [A('cls'), A('name'), A('reverse')], {'extra': A('extra')}, {'__parent__': None}, 1)
        at = t.as_atom() if isinstance(t, Poly) else None
        if isinstance(at, tuple) and at[:2] == ('call', 'cls'):
            kw = dict(at[3])
            okf = kw.get('name') == _tkey(A('name')) and kw.get('reverse') == _tkey(A('reverse')) and kw.get('extra') == _tkey(A('extra')) and not at[2]
    rep.ob('R15.handlers', 'factory', okf, 'factory forwards name, reverse and all values', prog.site(hm, h) if h is not None else '')
