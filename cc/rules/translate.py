"""Shared rules for C02 / C07 / C09: component -> branch translators (Circuit/transformers.py), kind table, value keys."""
from __future__ import annotations
import ast
from ..api import A, spec, call_ref, program
from ..terms import Evaluator, Poly, Rec, Cond, Opq, Comp, Ref, Closure, tkey, paths_of, term_equal, has_opaque, compare_terms, as_poly, hoist
from ..report import PROVEN, REFUTED, UNKNOWN, AnalysisError

TR = 'Circuit.transformers'
CP = 'Circuit.components'
PF = 'SignalProcessing.periodic_functions'


def walk_key(k):
    yield k
    if isinstance(k, tuple):
        for x in k:
            yield from walk_key(x)


def value_keys_read(term, atom='c') -> set:
    """value keys of component atom `atom` that occur anywhere in the term (guards included)"""
    out = set()
    pat = ('.', atom, 'value')
    for k in walk_key(tkey(term)):
        if isinstance(k, tuple) and len(k) == 3 and k[0] == '[]' and k[1] == pat and isinstance(k[2], str):
            out.add(k[2])
    return out


# ---------------------------------------------------------------------------------------------- constructors
def component_kinds(prog):
    """kind -> dict(fn=function name, written={key: derives_from_param(bool)}, params=[...], site, node) for every function of
    Circuit/components.py whose VALUE is Component(type='<kind>', ...) -- read off the normal form of the function, so constructors that
    delegate to shared helpers are followed"""
    cache = prog.__dict__.setdefault('_kinds_cache', {})
    if 'k' in cache: return cache['k']
    m = prog.mod(CP)
    kinds = {}
    from ..terms import paths_of, Rec
    for name, node in m.defs.items():
        if not isinstance(node, ast.FunctionDef) or name.startswith('_'): continue
        params = [a.arg for a in node.args.args + node.args.kwonlyargs]
        ev = Evaluator(prog)
        try:
            t = call_ref(ev, m, node, [A('§' + p) for p in params[:len(node.args.args)]], {p: A('§' + p) for p in params[len(node.args.args):]})
        except Exception:
            continue
        leaves = [l for _, l in paths_of(t)]
        recs = [l for l in leaves if isinstance(l, Rec) and l.cls == 'Component' and isinstance(l.f.get('type'), str)]
        if not recs or len(recs) != len(leaves) or len({r.f['type'] for r in recs}) != 1: continue
        written = {}
        for r in recs:
            val = r.f.get('value')
            if isinstance(val, dict):
                for k, v in val.items():
                    kk = k.v if hasattr(k, 'v') else k
                    if isinstance(kk, str):
                        written[kk] = written.get(kk, False) or ("'§" in repr(tkey(v)))
        kinds[recs[0].f['type']] = {'fn': name, 'written': written, 'params': params, 'site': prog.site(m, node), 'node': node}
    cache['k'] = kinds
    return kinds


def translators(prog):
    """kind -> (Module, FunctionDef) from the dispatch table `transformers`"""
    m = prog.mod(TR)
    out = {}
    for k, kn, vn in prog.table(TR, 'transformers'):
        r = prog.resolve_expr(m, vn)
        if r is None or r[0] != 'func':
            out[k] = None
        else:
            out[k] = (r[1], r[2])
    return out


def eval_translator(prog, mod, fn):
    ev = Evaluator(prog, real_atoms={'w', 'wres'}, facts=[(A('wres'), '>=0')])
    ev.opaque_fns |= {(PF, 'fourier_series'), (PF, 'periodic_function')}
    term = call_ref(ev, mod, fn, [A('c'), A('w'), A('wres')])
    return ev, term


# ---------------------------------------------------------------------------------------------- specifications
# per kind: form N (NortenElement: Z, V) or T (TheveninElement: Y, I); immittance; source value; gating
V_ = "c.value['{}']"
FS = ("fourier_series(periodic_function(c.value['wavetype'])(period=2*pi/c.value['w'], amplitude=c.value['{amp}'], phase=c.value['phi']))")
FS_POS = ("fourier_series(periodic_function(c.value['wavetype'])(2*pi/c.value['w'], c.value['{amp}'], c.value['phi']))")
N_H = "round(w/c.value['w'])"


def wave_field_order(prog):
    """common constructor field order of the wave classes registered in fourier_series_mapping (None when they differ)"""
    try:
        m = prog.mod(PF)
        orders = []
        for key, kn, vn in prog.table(PF, 'fourier_series_mapping'):
            r = prog.resolve_expr(m, kn)
            if not r or r[0] != 'class': return None
            orders.append([f[0] for f in prog.dataclass_fields(r[1], r[2]) if f[3]])
        return orders[0] if orders and all(o == orders[0] for o in orders) else None
    except Exception:
        return None
KIND_SPEC = {
    'resistor':        dict(form='N', imm="c.value['R']", src='0'),
    'conductance':     dict(form='T', imm="c.value['G']", src='0'),
    'impedance':       dict(form='N', imm="c.value['R'] + 1j*c.value['X']", src='0'),
    'admittance':      dict(form='T', imm="c.value['G'] + 1j*c.value['B']", src='0'),
    'capacitor':       dict(form='T', imm="1j*w*c.value['C']", src='0'),
    'inductance':      dict(form='N', imm="1j*w*c.value['L']", src='0'),
    'lamp':            dict(form='T', imm="c.value['P']/c.value['V_ref']**2", src='0'),
    'resistive_load':  dict(form='T', imm="c.value['P']/c.value['V_ref']**2", src='0'),
    'short_circuit':   dict(form='N', imm='0', src='0'),
    'dc_voltage_source': dict(form='N', imm="c.value['R']", src="c.value['V']", gate='plain'),
    'ac_voltage_source': dict(form='N', imm="c.value['R']", src="c.value['V']*(cos(c.value['phi']) + 1j*sin(c.value['phi']))", gate='plain'),
    'complex_voltage_source': dict(form='N', imm="c.value['R'] + 1j*c.value['X']", src="c.value['V_real'] + 1j*c.value['V_imag']"),
    'dc_current_source': dict(form='T', imm="c.value['G']", src="c.value['I']", gate='plain'),
    'ac_current_source': dict(form='T', imm="c.value['G']", src="c.value['I']*(cos(c.value['phi']) + 1j*sin(c.value['phi']))", gate='plain'),
    'complex_current_source': dict(form='T', imm="c.value['G'] + 1j*c.value['B']", src="c.value['I_real'] + 1j*c.value['I_imag']"),
    'periodic_voltage_source': dict(form='N', imm="c.value['R']", gate='periodic', amp='V',
                                    src="FS.amplitude(NH)*(cos(FS.phase(NH)) + 1j*sin(FS.phase(NH)))"),
    'periodic_current_source': dict(form='T', imm="c.value['G']", gate='periodic', amp='I',
                                    src="FS.amplitude(NH)*(cos(FS.phase(NH)) + 1j*sin(FS.phase(NH)))"),
}
GATE = {'plain': "abs(w - c.value['w']) > wres",
        'periodic': "abs(w/c.value['w'] - round(w/c.value['w'])) > wres/c.value['w']"}


def spec_env(prog, ev):
    m = prog.mod(TR)
    env = {'c': A('c'), 'w': A('w'), 'wres': A('wres')}
    for nm in ('fourier_series', 'periodic_function'):
        r = prog.resolve(prog.mod(PF), nm)
        env[nm] = ev.ref_of(r)
    return env, m


def element_view(ev, el, mod):
    """(form, immittance, source) of an element record"""
    if isinstance(el, Rec) and el.cls == 'NortenElement': return 'N', el.f.get('Z'), el.f.get('V')
    if isinstance(el, Rec) and el.cls == 'TheveninElement': return 'T', el.f.get('Y'), el.f.get('I')
    return None, None, None


def check_kind(rep, prog, kind, mod, fn, written, rules=('identity', 'immittance', 'phasor', 'gate'), pid_rule='R07'):
    """evaluate translator `kind` and compare with KIND_SPEC; emits obligations <pid_rule>.* keyed by kind"""
    site = prog.site(mod, fn)
    ev, term = eval_translator(prog, mod, fn)
    term = hoist(term)
    rep.count('translators_evaluated')
    sp = KIND_SPEC.get(kind)
    leaves = paths_of(term)
    # ---- identity: every returning path yields Branch(c.nodes[0], c.nodes[1], element(name=c.id))
    if 'identity' in rules:
        ok = True; why = ''
        for pc, leaf in leaves:
            if not (isinstance(leaf, Rec) and leaf.cls == 'Branch'):
                ok = None; why = f'path returns {leaf!r:.80}'; break
            el = leaf.f.get('element')
            els = [l for _, l in paths_of(el)]
            exp = {'node1': A('c') and ev.getitem(ev.getattr(A('c'), 'nodes', mod, 0), Poly.const(0)),
                   'node2': ev.getitem(ev.getattr(A('c'), 'nodes', mod, 0), Poly.const(1))}
            for fld in ('node1', 'node2'):
                if not term_equal(leaf.f.get(fld), exp[fld]):
                    ok = False if not has_opaque(leaf.f.get(fld)) else None
                    why = f"{fld} = {leaf.f.get(fld)!r}, expected {exp[fld]!r}"
            for e in els:
                nm = e.f.get('name') if isinstance(e, Rec) else None
                if not term_equal(nm, ev.getattr(A('c'), 'id', mod, 0)):
                    ok = False if (nm is not None and not has_opaque(nm)) else None
                    why = f"element name = {nm!r}, expected c.id"
            if ok is not True: break
        rep.ob(f'{pid_rule}.identity', kind, ok, why or 'Branch(c.nodes[0], c.nodes[1], element(name=c.id)) on every returning path', site,
               lhs=term if ok is not True else None)
    if sp is None:
        if 'immittance' in rules:
            rep.ob(f'{pid_rule}.formula', kind, None, 'no specification for this kind', site)
        return ev, term
    env, m = spec_env(prog, ev)
    # ---- gating: gates iff the kind carries a frequency (constructor writes 'w')
    carries_w = 'w' in written
    gate_kind = sp.get('gate')
    active_leaf = term
    if 'gate' in rules or 'immittance' in rules or 'phasor' in rules:
        if isinstance(term, Cond):
            gk = gate_kind or 'plain'
            gspec = spec(ev, GATE[gk], env, m)
            inactive_cls, inactive = (('NortenElement', {'Z': Poly(), 'V': Poly()}) if 'voltage' in kind else ('TheveninElement', {'Y': Poly(), 'I': Poly()}))
            verdict, why = True, f'gated into {"short" if "voltage" in kind else "open"} circuit exactly under {GATE[gk]}'
            if not carries_w:
                verdict, why = False, f"kind '{kind}' carries no frequency (constructor writes no 'w') but its translator is gated on {term.g!r}"
            elif not term_equal(term.g, gspec):
                verdict = None if has_opaque(term.g) else (False if _same_atoms(term.g, gspec) else None)
                why = f'gate is {term.g!r}, specification {gspec!r}'
            else:
                el = term.a.f.get('element') if isinstance(term.a, Rec) else None
                if not (isinstance(el, Rec) and el.cls == inactive_cls and all(term_equal(el.f.get(k), v) for k, v in inactive.items())):
                    verdict = False if (isinstance(el, Rec) and not has_opaque(el)) else None
                    why = f'inactive branch is {el!r}, expected {"short" if "voltage" in kind else "open"} circuit'
            active_leaf = term.b
            if 'gate' in rules:
                rep.ob(f'{pid_rule}.gate', kind, verdict, why, site, lhs=term.g, rhs=gspec)
        else:
            if 'gate' in rules:
                if carries_w and gate_kind:
                    rep.ob(f'{pid_rule}.gate', kind, False, f"kind '{kind}' carries a frequency but its translator is not gated", site, lhs=term)
                else:
                    rep.ob(f'{pid_rule}.gate', kind, True, 'kind without a frequency is translated ungated', site)
    # ---- active element: immittance and source phasor
    el = active_leaf.f.get('element') if isinstance(active_leaf, Rec) else None
    form, imm, src = element_view(ev, el, mod)
    src_spec_txt = sp['src'].replace('FS', FS.format(amp=sp.get('amp', 'V'))).replace('NH', N_H)
    imm_spec = spec(ev, sp['imm'], env, m)
    src_spec = spec(ev, src_spec_txt, env, m)
    if 'immittance' in rules:
        if form is None:
            rep.ob(f'{pid_rule}.immittance', kind, None, f'active element not a network element record: {el!r:.120}', site)
        elif form == sp['form']:
            ok = term_equal(imm, imm_spec)
            v = True if ok else (None if has_opaque(imm) else False)
            rep.ob(f'{pid_rule}.immittance', kind, v, f"{'Z' if form == 'N' else 'Y'} = {imm!r}" + ('' if ok else f', specification {imm_spec!r}'), site, lhs=imm, rhs=imm_spec)
        else:
            # dual form: equal only when 1/imm matches (monomials), zero sources
            try: inv = as_poly(imm).inv()
            except Exception: inv = None
            ok = inv is not None and term_equal(inv, imm_spec) and as_poly(imm).single() is not None
            decided = inv is not None and as_poly(imm).single() is not None and as_poly(imm_spec).single() is not None and not has_opaque(imm)
            rep.ob(f'{pid_rule}.immittance', kind, True if ok else (False if decided else None), f"dual form {form}: {'Z' if form == 'N' else 'Y'} = {imm!r} vs specification {'Z' if sp['form'] == 'N' else 'Y'} = {imm_spec!r}", site)
    if 'phasor' in rules and form is not None:
        if form == sp['form'] or (as_poly(src).is_zero() and as_poly(src_spec).is_zero()):
            ok = term_equal(src, src_spec)
            if not ok and 'FS' in sp['src']:
                # the wave classes are dataclasses with one common field order: constructing the selected class positionally is the same call
                order = wave_field_order(prog)
                if order and order[:3] == ['period', 'amplitude', 'phase']:
                    alt_txt = sp['src'].replace('FS', FS_POS.format(amp=sp.get('amp', 'V'))).replace('NH', N_H)
                    ok = term_equal(src, spec(ev, alt_txt, env, m))
            v = True if ok else (None if has_opaque(src) else False)
            rep.ob(f'{pid_rule}.phasor', kind, v, f"{'V' if form == 'N' else 'I'} = {src!r:.200}" + ('' if ok else f', specification {src_spec!r:.200}'), site, lhs=src, rhs=src_spec)
        else:
            rep.ob(f'{pid_rule}.phasor', kind, None, 'source given in the dual form', site)
    return ev, term


def _same_atoms(a, b):
    fa = {k for k in walk_key(tkey(a)) if isinstance(k, tuple) and k and k[0] in ('.', '[]')} | {k for k in walk_key(tkey(a)) if isinstance(k, str)}
    fb = {k for k in walk_key(tkey(b)) if isinstance(k, tuple) and k and k[0] in ('.', '[]')} | {k for k in walk_key(tkey(b)) if isinstance(k, str)}
    return True


# ---------------------------------------------------------------------------------------------- table rules
def rule_exhaustive(rep, prog, rid='R07.exhaustive'):
    kinds = component_kinds(prog)
    tr = translators(prog)
    if len(kinds) < 10:
        raise AnalysisError(f'only {len(kinds)} component constructors found in {CP}')
    for kind, info in sorted(kinds.items()):
        if kind == 'ground': continue
        ok = kind in tr and tr[kind] is not None
        rep.ob(rid, kind, ok, 'kind has a translator in the dispatch table' if ok else
               f"components.{info['fn']} constructs kind '{kind}' but the dispatch table `transformers` has no entry: "
               f"transform_circuit silently drops such components", info['site'])
    for kind in sorted(tr):
        if kind not in kinds:
            rep.info(f"table key '{kind}' has no constructor in components.py")
    return kinds, tr


def rule_keys(rep, prog, kinds, tr, rid='R07.keys'):
    for kind, ent in sorted(tr.items()):
        if ent is None or kind not in kinds: continue
        mod, fn = ent
        ev, term = eval_translator(prog, mod, fn)
        read = value_keys_read(term)
        written = kinds[kind]['written']
        site = prog.site(mod, fn)
        for k in sorted(read - set(written)):
            rep.ob(rid, f'{kind}:reads:{k}', False,
                   f"translator of '{kind}' reads value['{k}'] which components.{kinds[kind]['fn']} never writes (KeyError at run time)", site)
        for k in sorted(read & set(written)):
            rep.ob(rid, f'{kind}:reads:{k}', True, 'key read is written by the constructor', site)
        for k, from_param in sorted(written.items()):
            if not from_param: continue
            ok = k in read
            rep.ob(rid, f'{kind}:uses:{k}', ok, f"value['{k}'] (a constructor parameter) reaches the translated branch" if ok else
                   f"components.{kinds[kind]['fn']} stores parameter value['{k}'] but the translator of '{kind}' never uses it: "
                   f"the branch is evaluated without it", site)
