"""E0 -- resolved program model of /repo/src/CircuitCalculator (ast only; nothing is imported or executed)."""
from __future__ import annotations
import ast, os, pathlib
from dataclasses import dataclass, field

PKG = 'CircuitCalculator'


@dataclass
class Module:
    name: str                 # dotted, e.g. CircuitCalculator.Network.elements
    rel: str                  # Network/elements.py
    path: str
    tree: ast.Module
    src: str
    is_pkg: bool = False
    imports: dict = field(default_factory=dict)   # local name -> ('mod', dotted) | ('sym', dotted, name) | ('ext', dotted)
    defs: dict = field(default_factory=dict)      # top-level name -> ast node (FunctionDef | ClassDef | value expr of Assign)
    def_stmt: dict = field(default_factory=dict)  # top-level name -> statement node

    @property
    def short(self) -> str:
        return self.name[len(PKG) + 1:] if self.name != PKG else ''


@dataclass
class Func:
    qual: str                 # Network.transformers::remove_element | ...::Class.method | ...::outer.inner | ...::<table t['k']>
    mod: Module
    node: ast.AST             # FunctionDef | Lambda
    cls: ast.ClassDef | None = None
    parent: 'Func | None' = None

    @property
    def name(self) -> str:
        return self.qual.split('::', 1)[1]

    @property
    def site(self) -> str:
        return f"{self.mod.rel}:{getattr(self.node, 'lineno', 0)}"


class ResolvedNode(ast.AST):
    """stands for an expression whose value was computed by the evaluator: resolve_expr returns `r` directly"""
    _fields = ()
    def __init__(self, r, text=''):
        super().__init__()
        self.r = r; self.text = text; self.lineno = getattr(r[2], 'lineno', 0) if r else 0; self.col_offset = 0; self.end_lineno = self.lineno; self.end_col_offset = 0


class Program:
    def __init__(self, root: str = '/repo/src', sources: dict | None = None):
        """root: directory containing the package;  sources: {relative path: source text} (in-memory program, used by self-tests)"""
        self.root = root
        self.modules: dict[str, Module] = {}
        if sources is None:
            base = pathlib.Path(root) / PKG
            if not base.is_dir():
                raise FileNotFoundError(f'{base} not found')
            sources = {str(p.relative_to(base)): p.read_text(encoding='utf-8') for p in sorted(base.rglob('*.py'))}
            self.root = root
        for rel in sorted(sources):
            src = sources[rel]
            parts = list(pathlib.PurePosixPath(rel).with_suffix('').parts)
            is_pkg = parts[-1] == '__init__'
            if is_pkg: parts = parts[:-1]
            name = '.'.join([PKG] + parts)
            tree = ast.parse(src, filename=rel)
            self.modules[name] = Module(name, rel, os.path.join(root or '', PKG, rel), tree, src, is_pkg)
        self.sources = sources
        for m in self.modules.values():
            self._index(m)
        self.funcs: dict[str, Func] = {}
        for m in self.modules.values():
            self._collect_funcs(m)

    # ------------------------------------------------------------------ indexing
    def _index(self, m: Module):
        pkg_parts = m.name.split('.') if m.is_pkg else m.name.split('.')[:-1]
        for n in m.tree.body:
            self._index_stmt(m, n, pkg_parts)

    def _index_stmt(self, m: Module, n: ast.AST, pkg_parts, top=True):
        if isinstance(n, ast.ImportFrom):
            if n.level:
                base = pkg_parts[:len(pkg_parts) - (n.level - 1)]
                target = base + (n.module.split('.') if n.module else [])
            else:
                target = (n.module or '').split('.')
            tname = '.'.join(target)
            for a in n.names:
                local = a.asname or a.name
                if target and target[0] == PKG:
                    if f'{tname}.{a.name}' in self.modules:
                        m.imports[local] = ('mod', f'{tname}.{a.name}')
                    else:
                        m.imports[local] = ('sym', tname, a.name)
                else:
                    m.imports[local] = ('ext', f'{tname}.{a.name}')
        elif isinstance(n, ast.Import):
            for a in n.names:
                if a.name.split('.')[0] == PKG:
                    if a.asname: m.imports[a.asname] = ('mod', a.name)
                    else: m.imports[PKG] = ('mod', PKG)
                else:
                    m.imports[a.asname or a.name.split('.')[0]] = ('ext', a.name if a.asname else a.name.split('.')[0])
        elif top and isinstance(n, (ast.FunctionDef, ast.ClassDef)):
            m.defs[n.name] = n; m.def_stmt[n.name] = n
        elif top and isinstance(n, ast.Assign):
            for t in n.targets:
                if isinstance(t, ast.Name):
                    m.defs[t.id] = n.value; m.def_stmt[t.id] = n
        elif top and isinstance(n, ast.AnnAssign) and isinstance(n.target, ast.Name) and n.value is not None:
            m.defs[n.target.id] = n.value; m.def_stmt[n.target.id] = n
        elif top and isinstance(n, (ast.If, ast.Try)):
            for sub in getattr(n, 'body', []):
                self._index_stmt(m, sub, pkg_parts, top)

    def _collect_funcs(self, m: Module):
        def visit(body, prefix, cls, parent):
            for n in body:
                if isinstance(n, ast.FunctionDef):
                    f = Func(f'{m.short}::{prefix}{n.name}', m, n, cls, parent)
                    self.funcs[f.qual] = f
                    visit(n.body, f'{prefix}{n.name}.', None, f)
                elif isinstance(n, ast.ClassDef):
                    visit(n.body, f'{prefix}{n.name}.', n, parent)
                elif isinstance(n, (ast.If, ast.Try, ast.With, ast.For, ast.While)):
                    visit(getattr(n, 'body', []), prefix, cls, parent)
                    visit(getattr(n, 'orelse', []), prefix, cls, parent)
        visit(m.tree.body, '', None, None)
        # lambdas stored in module-level dict tables
        for name, val in m.defs.items():
            if isinstance(val, ast.Dict):
                for k, v in zip(val.keys, val.values):
                    if isinstance(v, ast.Lambda):
                        kk = self.const_key(m, k)
                        f = Func(f"{m.short}::<{name}[{kk!r}]>", m, v)
                        self.funcs[f.qual] = f

    # ------------------------------------------------------------------ lookup
    def mod(self, short: str) -> Module:
        name = f'{PKG}.{short}' if short else PKG
        if name not in self.modules:
            raise KeyError(f'module {short} not found')
        return self.modules[name]

    def resolve(self, m: Module, name: str, _depth=0):
        """Resolve a global name of module m.  Returns
        ('func', Module, FunctionDef) | ('class', Module, ClassDef) | ('var', Module, expr, name) | ('mod', Module) | ('ext', dotted) | None"""
        if _depth > 12: return None
        if name in m.defs:
            d = m.defs[name]
            if isinstance(d, ast.FunctionDef): return ('func', m, d)
            if isinstance(d, ast.ClassDef): return ('class', m, d)
            # alias chains: x = y ; x = mod.y
            if isinstance(d, ast.Name) and d.id != name:
                r = self.resolve(m, d.id, _depth + 1)
                if r is not None: return r
            if isinstance(d, ast.Attribute):
                r = self.resolve_expr(m, d, _depth + 1)
                if r is not None: return r
            return ('var', m, d, name)
        if name in m.imports:
            b = m.imports[name]
            if b[0] == 'mod':
                return ('mod', self.modules[b[1]]) if b[1] in self.modules else None
            if b[0] == 'sym':
                tm = self.modules.get(b[1])
                if tm is None: return None
                return self.resolve(tm, b[2], _depth + 1)
            return ('ext', b[1])
        return None

    def base_name(self, m: Module, b: ast.AST) -> str:
        """last component of the name a base-class expression DENOTES: `from typing import NamedTuple as _NT; class X(_NT)` has base 'NamedTuple'"""
        try:
            r = self.resolve_expr(m, b)
            if r is not None and r[0] == 'ext': return r[1].split('.')[-1]
        except Exception:
            pass
        return ast.unparse(b).split('.')[-1]

    def resolve_expr(self, m: Module, e: ast.AST, _depth=0):
        """Resolve Name or dotted Attribute chains that denote package objects."""
        if isinstance(e, ResolvedNode): return e.r
        if isinstance(e, ast.Name):
            return self.resolve(m, e.id, _depth)
        if isinstance(e, ast.Attribute):
            base = self.resolve_expr(m, e.value, _depth)
            if base is None: return None
            if base[0] == 'mod':
                bm = base[1]
                sub = f'{bm.name}.{e.attr}'
                r = self.resolve(bm, e.attr, _depth + 1)
                if r is not None: return r
                if sub in self.modules: return ('mod', self.modules[sub])
                return ('unresolved', bm, e.attr)
            if base[0] == 'ext':
                return ('ext', f'{base[1]}.{e.attr}')
            if base[0] == 'class':
                cm, cn = base[1], base[2]
                mm = self.find_member(cm, cn, e.attr)
                if mm: return ('member', mm[0], mm[1], cn)
            return None
        return None

    # ------------------------------------------------------------------ classes
    def class_bases(self, m: Module, cls: ast.ClassDef):
        out = []
        for b in cls.bases:
            r = self.resolve_expr(m, b)
            if r and r[0] == 'class': out.append((r[1], r[2]))
        return out

    def mro(self, m: Module, cls: ast.ClassDef):
        seen, out = set(), []
        def go(mm, c):
            if (mm.name, c.name) in seen: return
            seen.add((mm.name, c.name)); out.append((mm, c))
            for bm, bc in self.class_bases(mm, c): go(bm, bc)
        go(m, cls)
        return out

    def find_member(self, m: Module, cls: ast.ClassDef, name: str):
        for mm, c in self.mro(m, cls):
            for n in c.body:
                if isinstance(n, ast.FunctionDef) and n.name == name: return (mm, n, c)
                if isinstance(n, ast.AnnAssign) and isinstance(n.target, ast.Name) and n.target.id == name: return (mm, n, c)
                if isinstance(n, ast.Assign) and any(isinstance(t, ast.Name) and t.id == name for t in n.targets): return (mm, n, c)
        return None

    @staticmethod
    def decorators(node) -> list[str]:
        return [ast.unparse(d) for d in getattr(node, 'decorator_list', [])]

    def is_dataclass(self, cls: ast.ClassDef) -> bool:
        if any(d.split('(')[0].split('.')[-1] == 'dataclass' for d in self.decorators(cls)): return True
        # a typing.NamedTuple subclass is a record with declared fields, too (positional order = declaration order)
        if any(ast.unparse(b).split('.')[-1] == 'NamedTuple' for b in cls.bases): return True
        if not cls.bases: return False
        owner = self.__dict__.get('_class_owner')
        if owner is None:          # (the module of the class is not passed in: index every class once)
            owner = self.__dict__['_class_owner'] = {id(c_): m_ for m_ in self.modules.values() for c_ in ast.walk(m_.tree) if isinstance(c_, ast.ClassDef)}
        m_ = owner.get(id(cls))
        return m_ is not None and any(self.base_name(m_, b) == 'NamedTuple' for b in cls.bases)

    def is_frozen(self, cls: ast.ClassDef) -> bool:
        return any('frozen=True' in d.replace(' ', '') for d in self.decorators(cls))

    def is_property(self, fn: ast.FunctionDef) -> bool:
        return any(d in ('property', 'functools.cached_property', 'cached_property') for d in self.decorators(fn))

    def dataclass_fields(self, m: Module, cls: ast.ClassDef):
        """[(name, default_expr|None, Module, init:bool)] in dataclass order (bases first)."""
        out: list = []
        for mm, c in reversed(self.mro(m, cls)):
            for n in c.body:
                if isinstance(n, ast.AnnAssign) and isinstance(n.target, ast.Name):
                    init = True; default = n.value
                    if isinstance(default, ast.Call) and ast.unparse(default.func).split('.')[-1] == 'field':
                        kw = {k.arg: k.value for k in default.keywords}
                        if 'init' in kw and isinstance(kw['init'], ast.Constant) and kw['init'].value is False: init = False
                        default = kw.get('default', None)
                        if default is None and 'default_factory' in kw:
                            default = ast.Call(func=kw['default_factory'], args=[], keywords=[])
                            ast.fix_missing_locations(default)
                    out = [x for x in out if x[0] != n.target.id]
                    out.append((n.target.id, default, mm, init))
        return out

    # ------------------------------------------------------------------ helpers
    def const_key(self, m: Module, k: ast.AST):
        """Key of a dict-table entry: constant or resolved class/function name."""
        if isinstance(k, ast.Constant): return k.value
        r = self.resolve_expr(m, k) if isinstance(k, (ast.Name, ast.Attribute)) else None
        if r and r[0] in ('class', 'func'): return r[2].name
        if r and r[0] == 'ext': return r[1]
        return ast.unparse(k) if k is not None else None

    def table(self, short_mod: str, name: str):
        """Entries of a module-level dict literal: [(key, key_node, value_node)]."""
        m = self.mod(short_mod)
        d = m.defs.get(name)
        def writes(st):
            if isinstance(st, ast.Assign) and any(isinstance(t, ast.Subscript) and isinstance(t.value, ast.Name) and t.value.id == name for t in st.targets): return True
            if isinstance(st, ast.AugAssign) and isinstance(st.target, ast.Name) and st.target.id == name: return True
            if isinstance(st, ast.Expr) and isinstance(st.value, ast.Call) and isinstance(st.value.func, ast.Attribute) and isinstance(st.value.func.value, ast.Name) \
                    and st.value.func.value.id == name and st.value.func.attr in ('update', 'setdefault', 'pop', 'clear'): return True
            return False
        later_writes = any(writes(st) for st in m.tree.body)
        if isinstance(d, ast.Dict) and d.keys and all(k is not None for k in d.keys) and not later_writes and not self.is_filled_at_import(m, name):
            return [(self.const_key(m, k), k, v) for k, v in zip(d.keys, d.values)]
        return self._table_by_evaluation(m, short_mod, name)

    def is_filled_at_import(self, m, name):
        """is the module-level name `name` written again by top-level statements after its definition (or inside decorators applied at import)?"""
        cache = self.__dict__.setdefault('_filled_cache', {})
        k = (m.name, name)
        if k in cache: return cache[k]
        def writes(st):
            if isinstance(st, ast.Assign) and any(isinstance(t, ast.Subscript) and isinstance(t.value, ast.Name) and t.value.id == name for t in st.targets): return True
            if isinstance(st, ast.AugAssign) and isinstance(st.target, ast.Name) and st.target.id == name: return True
            if isinstance(st, ast.Expr) and isinstance(st.value, ast.Call) and isinstance(st.value.func, ast.Attribute) and isinstance(st.value.func.value, ast.Name) \
                    and st.value.func.value.id == name and st.value.func.attr in ('update', 'setdefault', 'pop', 'clear', 'append', 'extend'): return True
            return False
        top = [st for st in m.tree.body if not isinstance(st, (ast.FunctionDef, ast.ClassDef, ast.AsyncFunctionDef))]
        r = any(writes(x) for st in top for x in ast.walk(st) if isinstance(x, ast.stmt))          # also inside top-level loops / ifs
        if not r:
            # a registration helper: a module-level function that stores into `name` and is called by a top-level statement
            writers = {st.name for st in m.tree.body if isinstance(st, ast.FunctionDef) and any(writes(x) for x in ast.walk(st) if isinstance(x, ast.stmt))}
            if writers:
                r = any(isinstance(x, ast.Call) and isinstance(x.func, ast.Name) and x.func.id in writers for st in top for x in ast.walk(st))
        if not r:
            # a registration decorator: a module-level function that stores into `name` and is used as decorator somewhere in the module
            decos = {ast.unparse(d.func if isinstance(d, ast.Call) else d) for st in ast.walk(m.tree) if isinstance(st, (ast.FunctionDef, ast.ClassDef)) for d in st.decorator_list}
            for st in m.tree.body:
                if isinstance(st, ast.FunctionDef) and st.name in decos and any(writes(x) for x in ast.walk(st) if isinstance(x, ast.stmt)): r = True
        cache[k] = r
        return r

    def module_namespace(self, m):
        cache = self.__dict__.setdefault('_modenv_cache', {})
        if m.name not in cache:
            cache[m.name] = {}
            from .terms import Evaluator
            cache[m.name] = Evaluator(self).exec_module(m)
        return cache[m.name]

    def _table_by_evaluation(self, m, short_mod, name):
        """a dispatch table that is not written as one dict literal (dict(...), zip, merged sub-tables, a decorator registry): run the
        module's top level through the term evaluator and read the resulting dictionary; values come back as resolved nodes"""
        from .terms import Evaluator, Ref, Closure
        cache = self.__dict__.setdefault('_table_cache', {})
        if (short_mod, name) in cache: return cache[(short_mod, name)]
        env = self.module_namespace(m)
        val = env.get(name)
        if not isinstance(val, dict) or not val:
            raise KeyError(f'{short_mod}.{name} is not a dict literal and does not evaluate to a dictionary')
        out = []
        for k, v in val.items():
            kv = k.v if hasattr(k, 'v') else k
            def as_node(v):
                if isinstance(v, Ref) and v.kind in ('func', 'class'): return ResolvedNode((v.kind, v.mod, v.node))
                if isinstance(v, Closure) and isinstance(v.node, ast.Lambda): return v.node
                if isinstance(v, Closure): return ResolvedNode(('func', v.mod, v.node))
                if isinstance(v, (tuple, list)):
                    t = ast.Tuple(elts=[as_node(x) for x in v], ctx=ast.Load()); t.lineno = 0; t.col_offset = 0
                    return t
                if isinstance(v, (str, int, bool)) or v is None: return ast.Constant(value=v)
                return ResolvedNode(None, repr(v)[:80])
            if isinstance(kv, (Ref, Closure)): key = kv.name
            elif isinstance(kv, (str, int, bool)) or kv is None: key = kv
            else: raise KeyError(f'{short_mod}.{name}: key {kv!r} not understood')
            out.append((key, as_node(kv), as_node(v)))
        cache[(short_mod, name)] = out
        return out

    def func(self, short_mod: str, name: str) -> Func:
        q = f'{short_mod}::{name}'
        if q not in self.funcs:
            raise KeyError(f'function {q} not found')
        return self.funcs[q]

    def site(self, m: Module, node) -> str:
        return f"{m.rel}:{getattr(node, 'lineno', 0)}"

    # ------------------------------------------------------------------ R0.import
    def import_obligations(self):
        """Yield (key, ok, site, detail) for every intra-package imported symbol and every alias.attr use on a package module."""
        for m in self.modules.values():
            for n in ast.walk(m.tree):
                if isinstance(n, ast.ImportFrom):
                    for a in n.names:
                        local = a.asname or a.name
                        b = m.imports.get(local)
                        if not b or b[0] == 'ext': continue
                        if b[0] == 'mod':
                            yield (f'{m.short}: import {b[1]}', b[1] in self.modules, self.site(m, n), '')
                        else:
                            tm = self.modules.get(b[1])
                            ok = tm is not None and (b[2] in tm.defs or b[2] in tm.imports)
                            yield (f'{m.short}: from {b[1][len(PKG)+1:]} import {b[2]}', ok, self.site(m, n),
                                   '' if ok else f"module {b[1]} defines no name '{b[2]}'")
            mod_aliases = {k for k, v in m.imports.items() if v[0] == 'mod'}
            seen = set()
            for n in ast.walk(m.tree):
                if isinstance(n, ast.Attribute) and isinstance(n.value, ast.Name) and n.value.id in mod_aliases:
                    tgt = self.modules.get(m.imports[n.value.id][1])
                    if tgt is None or (n.value.id, n.attr) in seen: continue
                    seen.add((n.value.id, n.attr))
                    ok = n.attr in tgt.defs or n.attr in tgt.imports or f'{tgt.name}.{n.attr}' in self.modules
                    yield (f'{m.short}: {n.value.id}.{n.attr}', ok, self.site(m, n),
                           '' if ok else f"module {tgt.short} defines no name '{n.attr}'")


def params_of(fn) -> tuple[list[str], list, str | None, str | None, list[str], list]:
    """(positional names, defaults aligned to the tail, vararg, kwarg, kwonly names, kwonly defaults)"""
    a = fn.args
    pos = [x.arg for x in a.posonlyargs + a.args]
    return pos, list(a.defaults), (a.vararg.arg if a.vararg else None), (a.kwarg.arg if a.kwarg else None), \
        [x.arg for x in a.kwonlyargs], list(a.kw_defaults)


def returned_expr(fn):
    """the expression a function returns when it has a single return: follows `tmp = <expr>; return tmp` (one local, assigned once)"""
    rets = [r for r in ast.walk(fn) if isinstance(r, ast.Return) and r.value is not None]
    if len(rets) != 1: return None
    v = rets[0].value
    if isinstance(v, ast.Name):
        assigns = [a for a in ast.walk(fn) if isinstance(a, ast.Assign) and len(a.targets) == 1 and isinstance(a.targets[0], ast.Name) and a.targets[0].id == v.id]
        if len(assigns) == 1: return assigns[0].value
    return v
