"""E2 -- structured path enumeration over one function body (if/elif/else, try/except, with, return, raise); loops are not unrolled."""
from __future__ import annotations
import ast

MAXPATHS = 512


class TooManyPaths(Exception):
    pass


def paths(stmts, _budget=None):
    """yield lists of steps; step = ('guard', test, bool) | ('stmt', node) | ('except', handler) | ('loop', node);
    last step is ('return', node) | ('raise', node) | ('fall', None)"""
    budget = _budget if _budget is not None else [MAXPATHS]
    def gen(stmts):
        if not stmts:
            yield [('fall', None)]; return
        s, rest = stmts[0], stmts[1:]
        def cont(prefix):
            for p in gen(rest):
                yield prefix + p
        if isinstance(s, ast.Return):
            if isinstance(s.value, ast.IfExp):
                # `return a if c else b` == if c: return a / else: return b
                for val, sub in ((True, s.value.body), (False, s.value.orelse)):
                    r = ast.copy_location(ast.Return(value=sub), s)
                    for p in gen([r]): yield [('guard', s.value.test, val)] + p
            else:
                yield [('return', s)]
        elif isinstance(s, ast.Raise):
            yield [('raise', s)]
        elif isinstance(s, ast.If):
            for br, val in ((s.body, True), (s.orelse, False)):
                for p in gen(br):
                    if p[-1][0] == 'fall':
                        yield from cont([('guard', s.test, val)] + p[:-1])
                    else:
                        yield [('guard', s.test, val)] + p
        elif isinstance(s, ast.Try):
            for p in gen(s.body + s.orelse):
                if p[-1][0] == 'fall': yield from cont(p[:-1])
                else: yield p
            for h in s.handlers:
                for p in gen(h.body):
                    # the exception may have been raised anywhere in the try body: body statements are not known to have completed
                    if p[-1][0] == 'fall': yield from cont([('except', h)] + p[:-1])
                    else: yield [('except', h)] + p
        elif isinstance(s, ast.With):
            for p in gen(s.body):
                if p[-1][0] == 'fall': yield from cont([('stmt', s.items[0].context_expr)] + p[:-1])
                else: yield [('stmt', s.items[0].context_expr)] + p
        elif isinstance(s, (ast.For, ast.While)):
            # zero iterations or some iterations (body summarised as one opaque step; returns inside loops surface as paths)
            for p in gen(s.body):
                if p[-1][0] in ('return', 'raise'):
                    yield [('loop', s)] + p
            yield from cont([('loop', s)])
        else:
            yield from cont([('stmt', s)])
    for p in gen(stmts):
        budget[0] -= 1
        if budget[0] < 0: raise TooManyPaths()
        yield p


def names_in(node) -> set:
    return {n.id for n in ast.walk(node) if isinstance(n, ast.Name)}


def always_raises(stmts) -> bool:
    try:
        ps = list(paths(stmts))
    except TooManyPaths:
        return False
    return bool(ps) and all(p[-1][0] == 'raise' for p in ps)
