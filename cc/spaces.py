"""E4 -- index-space typing of the matrix code (abstract interpretation of the numpy idioms used by the nodal-analysis modules).

Every array axis carries a *space*: the ordered label set that laid it out.  Spaces are structural:
  ('S', pred, order)        labels selected by predicate `pred`, order in {'sorted','listing'}
  ('ORD', name)             keys of an insertion-ordered dictionary (c_values, l_values, ...)
  ('CAT', a, b)             block concatenation
  ('SUB', space, filt)      order-preserving selection of a space by a label filter
  ('ONE',) ('T', name)      a single row / a named free axis (time)
  ('U', n)                  unknown
An index drawn from space S may only address an axis whose space is S (or whose addressed block is S); joined axes of @, solve,
stack and element-wise operations must be equal.  Equality is three-valued and must hold for EVERY label set.
"""
from __future__ import annotations
import ast, itertools
from .prog import Program, Module, params_of

_unk = itertools.count()


def U(why=''):
    return ('U', next(_unk), why)


ONE = ('ONE',)


# ---------------------------------------------------------------------------------------------------- spaces
ASSUME_A1 = True     # no current source is an inductor (inductors are Z=0,V=0 branches = ideal-voltage-source type)
INDUCTANCE_DICTS = {'l_values'}      # names of the value dictionaries that play the role of l_values (extended when a builder summary is instantiated)


def flat(s):
    if s[0] == 'CAT': return flat(s[1]) + flat(s[2])
    if s[0] == 'SUB':
        base, filt = s[1], s[2]
        if base[0] == 'CAT':
            return [y for part in flat(base) for y in flat(('SUB', part, filt))]
        if ASSUME_A1 and base[0] == 'S' and base[1].split('@')[0] == 'is_current_source' and isinstance(filt, str) and filt.split(':', 1)[0] in ('in', 'notin') and filt.split(':', 1)[1] in INDUCTANCE_DICTS:
            return [] if filt.startswith('in:') else [base]
        if base[0] == 'S' and filt == 'pred:' + base[1].split('@')[0]: return [base]       # filtering by the defining predicate is the identity
        if base[0] == 'SUB': return [('SUB', x, filt) for x in flat(base)]
    return [s]


def has_u(s):
    return any(x[0] in ('U', 'ANY') or (x[0] == 'SUB' and has_u(x[1])) for x in flat(s))


def _strip_ids(x):
    if isinstance(x, tuple): return tuple(_strip_ids(y) for y in x)
    if isinstance(x, str) and '#' in x and x.startswith(('filter:', 'data-dependent')): return x.split('#')[0]
    return x


def same(a, b):
    fa, fb = flat(a), flat(b)
    if fa == fb: return True
    if has_u(a) or has_u(b): return None
    if _strip_ids(tuple(fa)) == _strip_ids(tuple(fb)): return None     # two separate data-dependent selections with the same text
    # a selection by VALUES of the data (a mask computed from the matrix, an unnamed filter) may or may not coincide with a named subset of the
    # same base: undecided as long as the bases line up block by block
    def dd(x): return x[0] == 'SUB' and isinstance(x[2], str) and x[2].startswith(('data-dependent', 'filter:?'))
    def base(x):
        while x[0] == 'SUB': x = x[1]
        return x
    if any(dd(x) for x in fa + fb):
        ba = [base(x) for x in fa]; bb = [base(x) for x in fb]
        # blocks that a named filter may empty (ASSUME_A1 drops them from flat) are tolerated on either side
        if ba == bb or set(map(repr, ba)) >= set(map(repr, bb)) or set(map(repr, bb)) >= set(map(repr, ba)): return None
    return False


def is_prefix(p, s):
    if has_u(p) or has_u(s): return None
    fp, fs = flat(p), flat(s)
    return fs[:len(fp)] == fp


def is_suffix(p, s):
    if has_u(p) or has_u(s): return None
    fp, fs = flat(p), flat(s)
    return len(fp) <= len(fs) and fs[len(fs) - len(fp):] == fp


def block_at(offset, p, s):
    """is p the block of s that starts right after block `offset`?"""
    if has_u(p) or has_u(s) or has_u(offset): return None
    fo, fp, fs = flat(offset), flat(p), flat(s)
    return fs[:len(fo)] == fo and fs[len(fo):len(fo) + len(fp)] == fp


def _is_label_space(s):
    return any(x[0] in ('S', 'ORD', 'SUB', 'SORT') for x in flat(s))


def show(s):
    if s[0] == 'S': return f"{{{s[1]}|{s[2]}}}"
    if s[0] == 'ORD': return f"ord({s[1]})"
    if s[0] == 'CAT': return ' ⊕ '.join(show(x) for x in flat(s)) if flat(s) else '∅'
    if s[0] == 'SUB':
        fl = flat(s)
        if fl != [s]: return ' ⊕ '.join(show(x) for x in fl) if fl else '∅'
        return f"{show(s[1])}[{s[2]}]"
    if s[0] == 'SORT': return f"sorted({show(s[1])})"
    if s[0] == 'ONE': return '1'
    if s[0] == 'T': return s[1]
    if s[0] == 'ANY': return '(' + ' + '.join(show(x) for x in s[1]) + ' in some order)'
    if s[0] == 'U': return f"?{s[2] and ':' + s[2]}"
    return str(s)


# ---------------------------------------------------------------------------------------------------- abstract values
class V:
    def __init__(s, kind, **kw):
        s.kind = kind; s.__dict__.update(kw)

    def __repr__(s):
        d = {k: v for k, v in s.__dict__.items() if k != 'kind' and k not in ('env', 'fn', 'mod', 'cls', 'fields')}
        if s.kind == 'array': return 'array[' + ' × '.join(show(a) for a in s.axes) + ']'
        for k in ('space', 'offset', 'result'):
            if k in d and isinstance(d[k], tuple): d[k] = show(d[k])
        return f"{s.kind}{d}"


TOP = V('top')


class Obligation:
    def __init__(s, fn, kind, verdict, detail, site, text):
        s.fn, s.kind, s.verdict, s.detail, s.site, s.text = fn, kind, verdict, detail, site, text


class Interp:
    """one abstract run from an entry point; obligations accumulate in self.obs"""
    def __init__(s, prog: Program, depth_limit=12):
        s.prog = prog
        s.obs: list[Obligation] = []
        s.depth_limit = depth_limit
        s.notes: list[str] = []
        s.signs: list = []

    # ------------------------------------------------------------------ obligations
    def ob(s, ctx, kind, verdict, detail, node, spaces=()):
        if spaces and not any(_is_label_space(x) for x in spaces): return
        s.obs.append(Obligation(ctx.fname, kind, verdict, detail, f"{ctx.mod.rel}:{getattr(node, 'lineno', 0)}", ast.unparse(node)[:90] if node is not None else ''))

    # ------------------------------------------------------------------ calls
    def call_function(s, mod: Module, fn, args, kwargs, closure_env=None, self_val=None, depth=0, fname=None):
        if depth > s.depth_limit: return TOP
        pos, defaults, vararg, kwarg, kwonly, kwdefaults = params_of(fn)
        env = dict(closure_env or {})
        dctx = _Ctx(s, mod, fname or getattr(fn, 'name', 'λ'), depth)
        for p, d in zip(pos[len(pos) - len(defaults):], defaults): env[p] = dctx.ev(d, dict(closure_env or {}))
        for p, d in zip(kwonly, kwdefaults):
            if d is not None: env[p] = dctx.ev(d, dict(closure_env or {}))
        a = ([self_val] if self_val is not None else []) + list(args)
        for p, v in zip(pos, a): env[p] = v
        for k, v in kwargs.items():
            if k in pos or k in kwonly: env[k] = v
        for p in pos:
            if p not in env: env[p] = TOP
        ctx = _Ctx(s, mod, fname or getattr(fn, 'name', 'λ'), depth)
        if isinstance(fn, ast.Lambda):
            return ctx.ev(fn.body, env)
        return ctx.block(fn.body, env)

    def make_object(s, mod: Module, cls: ast.ClassDef, fields: dict):
        obj = V('obj', mod=mod, cls=cls, fields=dict(fields))
        # dataclass defaults
        for name, dv, fm, _ in s.prog.dataclass_fields(mod, cls):
            if name not in obj.fields and dv is not None:
                obj.fields[name] = _Ctx(s, fm, cls.name, 0).ev(dv, {})
        return obj


class _Ctx:
    def __init__(c, it: Interp, mod: Module, fname: str, depth: int):
        c.it, c.mod, c.fname, c.depth = it, mod, fname, depth
        c.guards: list = []     # syntactic guards currently dominating (for the sign table)

    # ------------------------------------------------------------------ statements
    def block(c, stmts, env):
        ret = None
        for st in stmts:
            r = c.stmt(st, env)
            if r is not None and ret is None: ret = r
            elif r is not None and ret is not None and r.kind == 'array' and ret.kind == 'array' and len(r.axes) == len(ret.axes):
                # two return sites of one function: the returned arrays must be laid out alike
                for x, y in zip(ret.axes, r.axes):
                    c.it.ob(c, 'returns-agree', same(x, y), f"one return site yields {show(x)}, another {show(y)}", st if isinstance(st, ast.AST) else None, (x, y))
        return ret

    def stmt(c, st, env):
        if isinstance(st, ast.FunctionDef):
            env[st.name] = V('closure', fn=st, env=env, mod=c.mod); return None
        if isinstance(st, (ast.Assign, ast.AnnAssign)):
            if isinstance(st, ast.AnnAssign) and st.value is None: return None
            val = c.ev(st.value, env)
            for t in (st.targets if isinstance(st, ast.Assign) else [st.target]): c.assign(t, val, env, st)
            return None
        if isinstance(st, ast.AugAssign):
            c.ev(st.value, env)
            if isinstance(st.target, ast.Subscript):
                arr = c.ev(st.target.value, env)
                idx = c.ev(st.target.slice, env) if not isinstance(st.target.slice, ast.Slice) else TOP
                if arr.kind == 'array' and idx.kind in ('idxlist', 'list', 'tuple', 'array'):
                    # numpy semantics: X[[i, j, i]] += v applies ONE update per distinct index -- repeated indices do not accumulate
                    c.it.ob(c, 'scatter-accumulate', False, "augmented assignment through an index LIST: numpy buffers the operation, contributions that address the same position "
                            "more than once are not summed (use np.add.at or a matrix product)", st)
                elif arr.kind == 'array' and idx.kind == 'index':
                    c.check_index(idx, arr.axes[0], st.target, 'store-index')
            return None
        if isinstance(st, ast.For):
            # accumulate idiom  out = []; for t in it: [tmp = ..] [if c: continue] [if c:] out.append(elt) / out[k] = v  ==  a comprehension
            acc = _loop_as_comprehension(st)
            if acc is not None:
                target, kind, fake = acc
                cur = c.ev(target, env) if isinstance(target, ast.Name) and target.id in env else (c.ev(target, env) if isinstance(target, ast.Attribute) else None)
                empty = cur is not None and ((cur.kind == 'tuple' and not cur.items) or cur.kind == 'dictlit')
                if empty:
                    val = c.comp(fake, env)
                    if isinstance(target, ast.Name): env[target.id] = val
                    else:
                        b = c.ev(target.value, env)
                        if b.kind == 'obj': b.fields[target.attr] = val
                    return None
            c.bind_loop(st.target, c.iter_of(c.ev(st.iter, env)), env)
            return c.block(st.body, env)
        if isinstance(st, ast.While):
            return c.block(st.body, env)
        if isinstance(st, ast.If):
            c.ev(st.test, env)
            c.guards.append((st.test, True)); r1 = c.block(st.body, env); c.guards.pop()
            c.guards.append((st.test, False)); r2 = c.block(st.orelse, env); c.guards.pop()
            if r1 is not None and r2 is not None and r1.kind == 'array' and r2.kind == 'array' and len(r1.axes) == len(r2.axes):
                for x, y in zip(r1.axes, r2.axes):
                    c.it.ob(c, 'returns-agree', same(x, y), f"one branch returns {show(x)}, the other {show(y)}", st, (x, y))
            return r1 if r1 is not None else r2
        if isinstance(st, ast.Return):
            return c.ev(st.value, env) if st.value is not None else V('const', v=None)
        if isinstance(st, ast.Try):
            r = c.block(st.body, env)
            for h in st.handlers:
                r2 = c.block(h.body, env)
                r = r if r is not None else r2
            return r
        if isinstance(st, ast.With):
            return c.block(st.body, env)
        if isinstance(st, ast.Expr):
            c.ev(st.value, env); return None
        return None

    def assign(c, t, val, env, st):
        if isinstance(t, ast.Name): env[t.id] = val
        elif isinstance(t, (ast.Tuple, ast.List)):
            items = val.items if val.kind == 'tuple' else [TOP] * len(t.elts)
            for n, v in zip(t.elts, items): c.assign(n, v, env, st)
        elif isinstance(t, ast.Subscript): c.store(t, env, st)
        elif isinstance(t, ast.Attribute):
            base = c.ev(t.value, env)
            if base.kind == 'obj': base.fields[t.attr] = val

    def bind_loop(c, tgt, it, env):
        if isinstance(tgt, ast.Name):
            env[tgt.id] = it.elem if it.kind == 'iter' else TOP
        elif isinstance(tgt, ast.Tuple):
            if it.kind == 'prod': elems = it.elems
            elif it.kind == 'iter' and it.elem.kind in ('pair',): elems = [it.elem.a, it.elem.b]
            elif it.kind == 'iter' and it.elem.kind == 'tuple': elems = it.elem.items
            else: elems = [TOP] * len(tgt.elts)
            for t, e in zip(tgt.elts, elems):
                if isinstance(t, ast.Tuple) and e.kind == 'pair':
                    c.bind_loop(t.elts[0], V('iter', elem=e.a, space=None), env); c.bind_loop(t.elts[1], V('iter', elem=e.b, space=None), env)
                elif isinstance(t, ast.Tuple) and e.kind == 'tuple':
                    for tt, ee in zip(t.elts, e.items): c.bind_loop(tt, V('iter', elem=ee, space=None), env)
                elif isinstance(t, ast.Name): env[t.id] = e
                elif isinstance(t, ast.Tuple):
                    for tt in t.elts:
                        if isinstance(tt, ast.Name): env[tt.id] = TOP

    def iter_of(c, v):
        """iteration view of an abstract value"""
        if v.kind in ('iter', 'prod'): return v
        if v.kind == 'map': return V('iter', elem=V('label', space=v.space), space=v.space)
        if v.kind == 'list': return V('iter', elem=v.elem if hasattr(v, 'elem') else V('label', space=v.space), space=v.space)
        if v.kind == 'idxlist': return V('iter', elem=V('index', space=v.space, offset=None), space=v.result)
        if v.kind == 'dictparam': return V('iter', elem=V('label', space=('ORD', v.name)), space=('ORD', v.name))
        if v.kind == 'array' and v.axes: return V('iter', elem=V('array', axes=v.axes[1:]) if len(v.axes) > 1 else V('scalar'), space=v.axes[0])
        if v.kind == 'branches': return V('iter', elem=V('branch', space=('S', 'branch', 'listing')), space=('S', 'branch', 'listing'))
        if v.kind == 'components': return V('iter', elem=V('component'), space=('S', 'component', 'listing'))
        if v.kind == 'tuple': return V('iter', elem=v.items[0] if v.items else TOP, space=U('tuple'))
        return V('iter', elem=TOP, space=U('iter'))

    # ------------------------------------------------------------------ indexing
    def check_index(c, idx, axis, node, what='index'):
        if idx.kind == 'index':
            if idx.offset is not None: ok = block_at(idx.offset, idx.space, axis)
            else: ok = is_prefix(idx.space, axis)
            c.it.ob(c, what, ok, f"index drawn from {show(idx.space)}" + (f" at offset |{show(idx.offset)}|" if idx.offset is not None else '') + f" addresses an axis laid out as {show(axis)}", node)
            return True
        if idx.kind == 'idxlist':
            ok = same(idx.space, axis)
            c.it.ob(c, 'fancy-index', ok, f"index list drawn from {show(idx.space)} selects on an axis laid out as {show(axis)}", node)
            return True
        return False

    def store(c, t, env, st):
        chain, base = [], t
        while isinstance(base, ast.Subscript):
            chain.append(base.slice); base = base.value
        arr = c.ev(base, env); chain.reverse()
        if arr.kind != 'array': return
        idxs = []
        for ch in chain:
            v = c.ev(ch, env)
            idxs += v.items if v.kind == 'tuple' else [v]
        for ax, i in zip(arr.axes, idxs): c.check_index(i, ax, t, 'store-index')
        # sign table: constant stored at an incidence site
        if isinstance(st, ast.Assign):
            sg = _const_sign(st.value)
            if sg is not None:
                term = _terminal_of(t, c.guards)
                c.it.signs.append({'fn': c.fname, 'terminal': term, 'sign': sg, 'site': f"{c.mod.rel}:{st.lineno}", 'text': ast.unparse(st)[:80]})

    # ------------------------------------------------------------------ expressions
    def ev(c, e, env):
        m = getattr(c, 'e_' + type(e).__name__, None)
        return m(e, env) if m else TOP

    def e_Constant(c, e, env): return V('const', v=e.value)

    def e_Name(c, e, env):
        if e.id in env: return env[e.id]
        r = c.it.prog.resolve(c.mod, e.id)
        return c.from_resolved(r)

    def from_resolved(c, r):
        if r is None: return TOP
        if r[0] == 'func':
            sp = mapper_space(c.it.prog, r[1], r[2])
            if sp is not None: return V('mapper', space=sp, name=r[2].name, fn=r[2], mod=r[1])
            return V('func', fn=r[2], mod=r[1])
        if r[0] == 'class': return V('class', cls=r[2], mod=r[1])
        if r[0] == 'mod': return V('module', mod=r[1])
        if r[0] == 'ext': return V('ext', name=r[1])
        if r[0] == 'var': return _Ctx(c.it, r[1], r[3], c.depth).ev(r[2], {})
        return TOP

    def e_Tuple(c, e, env): return V('tuple', items=[c.ev(x, env) for x in e.elts])
    def e_List(c, e, env):
        items = [c.ev(x, env) for x in e.elts]
        return V('tuple', items=items)

    def e_Lambda(c, e, env): return V('closure', fn=e, env=env, mod=c.mod)

    def e_IfExp(c, e, env):
        c.ev(e.test, env)
        a, b = c.ev(e.body, env), c.ev(e.orelse, env)
        return a if a.kind != 'top' else b

    def e_Compare(c, e, env):
        c.ev(e.left, env)
        for x in e.comparators: c.ev(x, env)
        return V('bool')

    def e_BoolOp(c, e, env):
        for x in e.values: c.ev(x, env)
        return V('bool')

    def e_UnaryOp(c, e, env):
        v = c.ev(e.operand, env)
        if isinstance(e.op, ast.USub):
            if v.kind == 'size': return V('negsize', space=v.space)
            return v
        return v

    def e_Attribute(c, e, env):
        b = c.ev(e.value, env)
        a = e.attr
        if b.kind == 'module':
            r = c.it.prog.resolve(b.mod, a)
            if r is None and f'{b.mod.name}.{a}' in c.it.prog.modules: return V('module', mod=c.it.prog.modules[f'{b.mod.name}.{a}'])
            return c.from_resolved(r)
        if b.kind == 'ext': return V('ext', name=b.name + '.' + a)
        if b.kind == 'map':
            if a == 'N': return V('size', space=b.space)
            if a == 'keys': return V('list', space=b.space, elem=V('label', space=b.space))
            if a == 'values': return V('list', space=b.space, elem=V('index', space=b.space, offset=None))
            if a == 'mapping': return V('dictparam', name='map:' + show(b.space), space=b.space)
        if b.kind == 'array':
            if a == 'T': return V('array', axes=b.axes[::-1])
            if a in ('real', 'imag'): return b
            if a == 'shape': return V('shape', axes=b.axes)
            if a == 'size' and len(b.axes) == 1: return V('size', space=b.axes[0])
        if b.kind == 'network':
            if a == 'branches': return V('branches')
            if a == 'node_zero_label': return V('label', space=('ZERO',), zero=True, ident=getattr(b, 'ident', 0))
            if a == 'node_labels': return V('list', space=('S', 'node', 'sorted'), elem=V('label', space=('S', 'node', 'sorted')))
            if a == 'branch_ids': return V('list', space=('S', 'branch', 'listing'), elem=V('label', space=('S', 'branch', 'listing')))
        if b.kind == 'circuit':
            if a == 'components': return V('components')
            if a == 'ground_node': return V('label', space=('ZERO',), zero=True, ident=0)
        if b.kind == 'component': return V('scalar')
        if b.kind == 'branch':
            if a in ('node1', 'node2'): return V('label', space=('S', 'node', 'any'), terminal=a)
            if a == 'id': return V('label', space=b.space)
            if a == 'element': return V('element')
        if b.kind == 'element': return V('scalar')
        if b.kind == 'dictparam': return V('dictparam_m', d=b, m=a)
        if b.kind == 'obj':
            if a in b.fields: return b.fields[a]
            mem = c.it.prog.find_member(b.mod, b.cls, a)
            if mem and isinstance(mem[1], ast.FunctionDef):
                if c.it.prog.is_property(mem[1]):
                    return c.it.call_function(mem[0], mem[1], [], {}, None, b, c.depth + 1, f'{b.cls.name}.{a}')
                return V('method', fn=mem[1], mod=mem[0], obj=b, name=f'{b.cls.name}.{a}')
            return TOP
        return TOP

    def e_Subscript(c, e, env):
        b = c.ev(e.value, env)
        sl = e.slice
        if b.kind == 'shape' and isinstance(sl, ast.Constant) and isinstance(sl.value, int) and sl.value < len(b.axes):
            return V('size', space=b.axes[sl.value])
        if b.kind == 'map':
            k = c.ev(sl, env)
            return V('index', space=b.space, offset=None, of=k)
        if b.kind == 'network':
            k = c.ev(sl, env)
            return V('branch', space=getattr(k, 'space', U('label')))
        if b.kind == 'dictparam':
            c.ev(sl, env); return V('scalar')
        if b.kind == 'tuple' and isinstance(sl, ast.Constant) and isinstance(sl.value, int) and -len(b.items) <= sl.value < len(b.items):
            return b.items[sl.value]
        if b.kind == 'array':
            items = sl.elts if isinstance(sl, ast.Tuple) else [sl]
            axes = list(b.axes); out = []
            for k, it in enumerate(items):
                if k >= len(axes): break
                if isinstance(it, ast.Slice):
                    if it.lower is None and it.upper is None: out.append(axes[k]); continue
                    lo = c.ev(it.lower, env) if it.lower else None
                    up = c.ev(it.upper, env) if it.upper else None
                    if lo is None and up is not None and up.kind == 'size':
                        c.it.ob(c, 'prefix-slice', is_prefix(up.space, axes[k]), f"[:|{show(up.space)}|] taken from an axis laid out as {show(axes[k])}", e)
                        out.append(up.space); continue
                    if up is None and lo is not None and lo.kind == 'negsize':
                        c.it.ob(c, 'suffix-slice', is_suffix(lo.space, axes[k]), f"[-|{show(lo.space)}|:] taken from an axis laid out as {show(axes[k])}", e)
                        out.append(lo.space); continue
                    if lo is not None and lo.kind == 'index':
                        c.check_index(lo, axes[k], e, 'row-slice'); out.append(ONE); continue
                    if up is not None and up.kind == 'negsize' and lo is not None and lo.kind == 'negsize':
                        out.append(U('slice')); continue
                    out.append(U('slice')); continue
                v = c.ev(it, env)
                if v.kind == 'idxlist':
                    c.check_index(v, axes[k], e); out.append(v.result); continue
                if v.kind == 'index':
                    c.check_index(v, axes[k], e); continue          # axis consumed
                if v.kind == 'tuple' and v.items and all(x.kind == 'array' and len(x.axes) == 1 for x in v.items) and len(items) == 1:
                    # X[np.ix_(rows, cols)]: one data-dependent selection per axis
                    res_axes = []
                    for ax, msk in zip(axes, v.items):
                        c.it.ob(c, 'mask-select', same(msk.axes[0], ax), f"mask laid out as {show(msk.axes[0])} selects on an axis laid out as {show(ax)}", e, (msk.axes[0], ax))
                        res_axes.append(('SUB', ax, 'data-dependent-mask#' + str(next(_unk))))
                    return V('array', axes=res_axes + axes[len(v.items):])
                if v.kind == 'tuple':
                    if all(x.kind == 'index' for x in v.items):
                        for ax, i in zip(axes, v.items): c.check_index(i, ax, e)
                        return V('array', axes=axes[len(v.items):]) if len(axes) > len(v.items) else V('scalar')
                    # list of index values used as fancy index
                    for x in v.items:
                        if x.kind == 'index': c.check_index(x, axes[k], e)
                    out.append(U('fancy')); continue
                if v.kind == 'list' and hasattr(v, 'elem') and v.elem.kind == 'index':
                    c.check_index(V('idxlist', space=v.elem.space, result=v.space), axes[k], e); out.append(v.space); continue
                if v.kind == 'const' and isinstance(v.v, int): continue
                if v.kind == 'array' and len(v.axes) == 1:
                    # boolean mask / index array computed from the data: an order-preserving, data-dependent selection of this axis
                    c.it.ob(c, 'mask-select', same(v.axes[0], axes[k]), f"mask laid out as {show(v.axes[0])} selects on an axis laid out as {show(axes[k])}", e, (v.axes[0], axes[k]))
                    out.append(('SUB', axes[k], 'data-dependent-mask#' + str(next(_unk)))); continue
                out.append(U('index'))
            res = out + axes[len(items):]
            return V('array', axes=res) if res else V('scalar')
        if b.kind == 'list':
            k = c.ev(sl, env)
            return b.elem if hasattr(b, 'elem') else TOP
        c.ev(sl, env) if not isinstance(sl, ast.Slice) else None
        return TOP

    def e_BinOp(c, e, env):
        a, b = c.ev(e.left, env), c.ev(e.right, env)
        if isinstance(e.op, ast.MatMult) and a.kind == 'array' and b.kind == 'array':
            c.it.ob(c, 'matmul', same(a.axes[-1], b.axes[0]), f"{show(a.axes[-1])} contracted with {show(b.axes[0])}", e, (a.axes[-1], b.axes[0]))
            return V('array', axes=a.axes[:-1] + b.axes[1:])
        if isinstance(e.op, ast.Add):
            if a.kind == 'index' and b.kind == 'size': return V('index', space=a.space, offset=b.space)
            if b.kind == 'index' and a.kind == 'size': return V('index', space=b.space, offset=a.space)
            if a.kind == 'index' and b.kind == 'const' and a.offset is None: return V('indexplus', base=a, plus=b.v)
            if a.kind in ('tuple',) and b.kind in ('tuple',): return V('tuple', items=a.items + b.items)
            if a.kind == 'list' and b.kind == 'list':
                return V('list', space=('CAT', a.space, b.space), elem=V('label', space=('CAT', a.space, b.space)))
        if isinstance(e.op, (ast.Sub, ast.Add)) and a.kind == 'array' and b.kind == 'array':
            if len(a.axes) == len(b.axes):
                for x, y in zip(a.axes, b.axes):
                    c.it.ob(c, 'elementwise', same(x, y), f"{show(x)} combined element-wise with {show(y)}", e, (x, y))
            return a
        if a.kind == 'array': return a
        if b.kind == 'array': return b
        return V('scalar') if a.kind != 'top' or b.kind != 'top' else TOP

    def comp(c, e, env):
        g = e.generators[0]
        src = c.ev(g.iter, env)
        it = c.iter_of(src)
        env2 = dict(env)
        c.bind_loop(g.target, it, env2)
        filt = None
        for cond in g.ifs:
            c.ev(cond, env2)
            fk_ = _filter_key(cond, g.target, lambda nm: env2.get(nm))
            filt = fk_ if filt is None else filt + '&' + fk_
        base = it.space if it.kind == 'iter' and it.space is not None else U('comp')
        if filt is not None and base[0] == 'S' and filt.startswith('pred:') and base[1] in ('branch', 'node'):
            res = ('S', filt[5:], base[2])          # selection of all branches / nodes by a predicate defines a new S space
        elif filt is not None and base[0] == 'S' and filt == 'ne:zero' and base[1] == 'node':
            res = ('S', 'node!=zero', base[2])
        else:
            res = ('SUB', base, filt) if filt is not None else base
        if len(e.generators) > 1:
            for g2 in e.generators[1:]:
                c.bind_loop(g2.target, c.iter_of(c.ev(g2.iter, env2)), env2)
            res = U('nested-comp')
        el = c.ev(e.elt if not isinstance(e, ast.DictComp) else e.value, env2)
        if isinstance(e, ast.DictComp):
            k = c.ev(e.key, env2)
            if src.kind in ('components', 'list') and k.kind in ('scalar', 'label') and el.kind == 'scalar':
                # {c.id: value for c in components if kind}: an insertion-ordered value dictionary
                return V('dictparam', name=show(res).replace('#', '_'))
            return V('dictcomp', key=k, value=el, space=res, src=src)
        if el.kind == 'index':
            return V('idxlist', space=el.space, result=res, offset=el.offset)
        if el.kind == 'label':
            return V('list', space=res, elem=V('label', space=res), terminal=getattr(el, 'terminal', None))
        return V('list', space=res, elem=el)

    def e_ListComp(c, e, env): return c.comp(e, env)
    def e_GeneratorExp(c, e, env): return c.comp(e, env)
    def e_SetComp(c, e, env): return c.comp(e, env)
    def e_DictComp(c, e, env): return c.comp(e, env)

    def e_Dict(c, e, env):
        return V('dictlit')

    # ------------------------------------------------------------------ calls
    def e_Call(c, e, env):
        f = e.func
        src = ast.unparse(f)
        args = [c.ev(a, env) for a in e.args]
        kw = {k.arg: c.ev(k.value, env) for k in e.keywords if k.arg is not None}
        fv = c.ev(f, env) if isinstance(f, (ast.Name, ast.Attribute, ast.Subscript)) else TOP
        # a model object handed to a solver together with its input series: input columns must be laid out like B's columns
        if args and args[0].kind == 'obj' and 'B' in args[0].fields and len(args) > 1 and args[1].kind == 'array' and args[0].fields['B'].kind == 'array':
            B = args[0].fields['B']
            c.it.ob(c, 'solver-input', same(args[1].axes[-1], B.axes[-1]), f"input series columns laid out {show(args[1].axes[-1])}, model inputs (columns of B) {show(B.axes[-1])}", e)
        # ---- builtins / numpy by name
        name = f.id if isinstance(f, ast.Name) else (f.attr if isinstance(f, ast.Attribute) else '')
        is_np = fv.kind == 'ext' and fv.name.split('.')[0] in ('numpy', 'np')
        if isinstance(f, ast.Name) and f.id not in env and fv.kind == 'top':
            r = c.builtin(f.id, args, kw, e, env)
            if r is not None: return r
        if is_np:
            r = c.numpy(fv.name.split('.', 1)[1] if '.' in fv.name else fv.name, args, kw, e)
            if r is not None: return r
            return TOP
        if fv.kind == 'ext':
            if fv.name.endswith('product'):
                its = [c.iter_of(a) for a in args]
                if 'repeat' in kw and kw['repeat'].kind == 'const': its = its * kw['repeat'].v
                return V('prod', elems=[i.elem for i in its])
            return TOP
        if fv.kind == 'mapper':
            net = args[0] if args else kw.get('network', TOP)
            ident = getattr(net, 'ident', 0) if net.kind == 'network' else 0
            return V('map', space=_retag(fv.space, ident), mapper=fv.name)
        if fv.kind == 'map':
            idx = [V('index', space=fv.space, offset=None, of=a) for a in args]
            return idx[0] if len(idx) == 1 else V('tuple', items=idx)
        if fv.kind == 'closure':
            return c.it.call_function(fv.mod, fv.fn, args, kw, fv.env, None, c.depth + 1, c.fname + '.' + getattr(fv.fn, 'name', 'λ')) or TOP
        if fv.kind == 'func':
            if fv.fn.name == 'filter' and fv.mod.short.endswith('label_mapping') and args and args[0].kind == 'map':
                fk = 'pred:?'
                if len(args) > 1 and args[1].kind == 'closure':
                    fk = _closure_key(args[1]) or fk
                elif len(args) > 1 and args[1].kind == 'func':
                    fk = _closure_key(args[1]) or fk
                sp = ('SUB', args[0].space, fk)
                return V('map', space=sp if flat(sp) != [args[0].space] else args[0].space)
            return c.it.call_function(fv.mod, fv.fn, args, kw, None, None, c.depth + 1) or TOP
        if fv.kind == 'method':
            return c.it.call_function(fv.mod, fv.fn, args, kw, None, fv.obj, c.depth + 1, fv.name) or TOP
        if fv.kind == 'class':
            return c.construct(fv, args, kw, e)
        # ---- methods on abstract values
        if isinstance(f, ast.Attribute):
            b = c.ev(f.value, env)
            if b.kind == 'dictparam' and f.attr in ('values', 'keys'): return b
            if b.kind == 'dictparam' and f.attr == 'items':
                return V('iter', elem=V('tuple', items=[V('label', space=('ORD', b.name)), V('scalar')]), space=('ORD', b.name))
            if b.kind == 'list' and f.attr == 'index' and args:
                return V('index', space=b.space, offset=None, of=args[0])
            if b.kind == 'idxlist' and f.attr == 'index' and args:
                if args[0].kind == 'index':
                    c.it.ob(c, 'position-of', is_prefix(args[0].space, b.space), f"position of an index drawn from {show(args[0].space)} looked up in a list of indices of {show(b.space)}", e)
                return V('index', space=b.result, offset=None, of=args[0])
            if b.kind == 'array' and f.attr in ('conjugate', 'conj', 'copy', 'astype'): return b
            if b.kind == 'array' and f.attr == 'any':
                ax = kw.get('axis', args[0] if args else None)
                if ax is not None and ax.kind == 'const' and len(b.axes) == 2: return V('array', axes=[b.axes[1 - ax.v]])
                return V('scalar')
            if b.kind == 'array' and f.attr == 'reshape': return V('array', axes=[U('reshape')])
        if fv.kind == 'top' and len(args) == 1 and args[0].kind == 'array' and not kw:
            return args[0]          # unknown callable applied to a series: a series on the same axis
        if fv.kind in ('func', 'closure') and False: pass
        return TOP

    def construct(c, fv, args, kw, node):
        fields = {}
        names = [f[0] for f in c.it.prog.dataclass_fields(fv.mod, fv.cls) if f[3]]
        for n, a in zip(names, args): fields[n] = a
        fields.update(kw)
        obj = c.it.make_object(fv.mod, fv.cls, fields)
        if fv.cls.name == 'LabelMapping':
            d = fields.get('mapping')
            if d is not None and d.kind == 'dictcomp':
                # {k: v for v, k in enumerate(L)}  or  {k: mapping[k] for k in mapping.keys if f(k)}: labels keyed to their own positions
                sp = _enumerate_space(d)
                return V('map', space=sp if sp is not None else U('LabelMapping'))
            return V('map', space=U('LabelMapping'))
        if fv.cls.name == 'Network':
            # a new Network object: same branches / reference unless the arguments say otherwise
            zero = fields.get('node_zero_label')
            br = fields.get('branches')
            rereferenced = zero is not None and not (zero.kind == 'label' and getattr(zero, 'zero', False) and getattr(zero, 'ident', 0) == 0)
            filtered = br is not None and br.kind != 'branches'
            if not rereferenced and not filtered: return V('network', ident=0)
            return V('network', ident=next(_unk), rereferenced=rereferenced, filtered=filtered)
        mem = c.it.prog.find_member(fv.mod, fv.cls, '__post_init__')
        if mem and isinstance(mem[1], ast.FunctionDef):
            c.it.call_function(mem[0], mem[1], [], {}, None, obj, c.depth + 1, f'{fv.cls.name}.__post_init__')
        return obj

    def builtin(c, name, args, kw, node, env):
        a = args[0] if args else TOP
        if name == 'len':
            if a.kind == 'dictparam': return V('size', space=('ORD', a.name))
            if a.kind == 'dictparam_m': return V('size', space=('ORD', a.d.name))
            if a.kind in ('list', 'idxlist'): return V('size', space=a.space if a.kind == 'list' else a.result)
            if a.kind == 'map': return V('size', space=a.space)
            return V('size', space=U('len'))
        if name == 'enumerate':
            it = c.iter_of(a)
            sp = it.space if it.space is not None else U('enumerate')
            return V('iter', elem=V('pair', a=V('index', space=sp, offset=None), b=it.elem), space=sp)
        if name in ('list', 'tuple') and not args: return V('tuple', items=[])
        if name in ('list', 'tuple'):
            if a.kind == 'dictparam': return V('list', space=('ORD', a.name), elem=V('label', space=('ORD', a.name)))
            if a.kind in ('list', 'idxlist'): return a
            it = c.iter_of(a)
            return V('list', space=it.space or U('list'), elem=it.elem)
        if name == 'sorted':
            if a.kind in ('dictparam',):
                sp = ('SORT', ('ORD', a.name))
                return V('list', space=sp, elem=V('label', space=sp))
            if a.kind == 'list' and a.space[0] == 'ORD':
                sp = ('SORT', a.space)
                return V('list', space=sp, elem=V('label', space=sp))
            if a.kind == 'list':
                sp = _sorted_space(a.space)
                return V('list', space=sp, elem=V('label', space=sp))
            return V('list', space=U('sorted'), elem=TOP)
        if name == 'zip':
            its = [c.iter_of(x) for x in args]
            for x in its[1:]:
                if its[0].space is not None and x.space is not None:
                    c.it.ob(c, 'zip', same(its[0].space, x.space), f"{show(its[0].space)} paired position-wise with {show(x.space)}", node)
            return V('iter', elem=V('tuple', items=[i.elem for i in its]), space=its[0].space if its else U('zip'))
        if name in ('float', 'int', 'complex', 'abs', 'sum', 'min', 'max', 'round', 'any', 'all', 'str', 'bool'): return V('scalar')
        if name == 'range': return V('iter', elem=V('scalar'), space=U('range'))
        if name == 'dict' and not args: return V('dictlit')
        if name in ('list', 'tuple') and not args: return V('tuple', items=[])
        if name == 'set':
            return a
        return None

    def numpy(c, fn, args, kw, node):
        a = args[0] if args else TOP
        def shape_axes(sh):
            items = sh.items if sh.kind == 'tuple' else [sh]
            return [(i.space if i.kind == 'size' else (ONE if i.kind == 'const' and i.v == 1 else (('EMPTY',) if i.kind == 'const' and i.v == 0 else U('shape')))) for i in items]
        if fn in ('zeros', 'ones', 'empty', 'ndarray'):
            sh = kw.get('shape', a)
            return V('array', axes=shape_axes(sh))
        if fn == 'eye':
            ax = a.space if a.kind == 'size' else U('eye')
            return V('array', axes=[ax, ax])
        if fn in ('hstack', 'vstack', 'concatenate'):
            parts = a.items if a.kind == 'tuple' else []
            if not parts or not all(p.kind == 'array' for p in parts): return TOP
            ax = 1 if fn == 'hstack' else 0
            if len(parts[0].axes) == 1:
                sp = parts[0].axes[0]
                for p in parts[1:]: sp = ('CAT', sp, p.axes[0]) if p.axes[0] != ('EMPTY',) and sp != ('EMPTY',) else (p.axes[0] if sp == ('EMPTY',) else sp)
                return V('array', axes=[sp])
            other = 1 - ax
            for p in parts[1:]:
                if len(p.axes) == 1 and fn == 'vstack':
                    c.it.ob(c, fn + ':other-axis', same(parts[0].axes[1], p.axes[0]), f"{show(parts[0].axes[1])} stacked above a row laid out as {show(p.axes[0])}", node, (parts[0].axes[1], p.axes[0]))
                if len(p.axes) == 2:
                    c.it.ob(c, fn + ':other-axis', same(parts[0].axes[other], p.axes[other]), f"{show(parts[0].axes[other])} stacked next to {show(p.axes[other])}", node, (parts[0].axes[other], p.axes[other]))
            sp = parts[0].axes[ax]
            for p in parts[1:]:
                pa = p.axes[ax] if len(p.axes) == 2 else ONE
                if sp == ('EMPTY',): sp = pa
                elif pa == ('EMPTY',): pass
                else: sp = ('CAT', sp, pa)
            axes = list(parts[0].axes); axes[ax] = sp
            return V('array', axes=axes)
        if fn == 'linalg.inv':
            if a.kind == 'array' and len(a.axes) == 2:
                c.it.ob(c, 'inv:square', same(a.axes[0], a.axes[1]), f"inverse of a matrix laid out {show(a.axes[0])} × {show(a.axes[1])}", node)
                return V('array', axes=a.axes[::-1])
            return TOP
        if fn == 'linalg.solve':
            b = args[1] if len(args) > 1 else TOP
            if a.kind == 'array' and b.kind == 'array' and len(a.axes) == 2:
                c.it.ob(c, 'solve:rhs', same(a.axes[0], b.axes[0]), f"equations laid out {show(a.axes[0])}, right-hand side {show(b.axes[0])}", node)
                return V('array', axes=[a.axes[1]] + b.axes[1:])
            return TOP
        if fn == 'diag':
            if a.kind == 'array' and len(a.axes) == 2:
                c.it.ob(c, 'diag:square', same(a.axes[0], a.axes[1]), f"diagonal of {show(a.axes[0])} × {show(a.axes[1])}", node)
                return V('array', axes=[a.axes[0]])
            if a.kind == 'array' and len(a.axes) == 1: return V('array', axes=[a.axes[0], a.axes[0]])
            sp = a.space if a.kind == 'list' else U('diag')
            return V('array', axes=[sp, sp])
        if fn in ('array', 'asarray'):
            if a.kind == 'list':
                inner = a.elem.axes if getattr(a, 'elem', TOP).kind == 'array' else []
                return V('array', axes=[a.space] + list(inner))
            if a.kind == 'array': return a
            if a.kind == 'tuple': return V('array', axes=[U('literal')])
            return V('array', axes=[U('array')])
        if fn == 'delete':
            if a.kind == 'array':
                axis = kw.get('axis', args[2] if len(args) > 2 else None)
                k = axis.v if axis is not None and axis.kind == 'const' else None
                tag = 'data-dependent-delete#' + str(next(_unk))
                return V('array', axes=[('SUB', ax, tag) if i == k else ax for i, ax in enumerate(a.axes)])
            return TOP
        if fn == 'reshape':
            sh = args[1] if len(args) > 1 else TOP
            if sh.kind == 'tuple': return V('array', axes=shape_axes(sh))
            return V('array', axes=[U('reshape')])
        if fn == 'ix_': return V('tuple', items=list(args))
        if fn in ('where',): return V('tuple', items=[V('list', space=U('where'), elem=V('index', space=U('where'), offset=None))])
        if fn in ('size',): return V('size', space=a.axes[0] if a.kind == 'array' and len(a.axes) == 1 else U('size'))
        if fn in ('any', 'all', 'isnan', 'isfinite', 'logical_not', 'abs', 'sum', 'sqrt', 'cos', 'sin', 'angle', 'conj', 'real', 'imag', 'exp'):
            return a if a.kind == 'array' and fn not in ('any', 'all', 'sum') else V('scalar')
        return None


# ---------------------------------------------------------------------------------------------------- helpers
def _loop_as_comprehension(st: ast.For):
    """(accumulator target expr, kind, equivalent comprehension node) for an accumulate loop, else None.  Local temporaries are
    substituted into the element expression; `if c: continue` becomes the filter `not c`."""
    import copy
    gens = [ast.comprehension(target=st.target, iter=st.iter, ifs=[], is_async=0)]
    subst = {}
    result = []

    class _Sub(ast.NodeTransformer):
        def visit_Name(self, n):
            if isinstance(n.ctx, ast.Load) and n.id in subst: return copy.deepcopy(subst[n.id])
            return n

    def sx(e): return _Sub().visit(copy.deepcopy(e))

    def walk(stmts, level):
        for i, s_ in enumerate(stmts):
            if isinstance(s_, ast.Pass): continue
            if isinstance(s_, ast.Assign) and len(s_.targets) == 1 and isinstance(s_.targets[0], ast.Name):
                subst[s_.targets[0].id] = sx(s_.value); continue
            if isinstance(s_, ast.If) and not s_.orelse and len(s_.body) == 1 and isinstance(s_.body[0], ast.Continue):
                gens[level].ifs.append(ast.UnaryOp(op=ast.Not(), operand=sx(s_.test))); continue
            if isinstance(s_, ast.If) and not s_.orelse and i == len(stmts) - 1:
                gens[level].ifs.append(sx(s_.test))
                if not walk(s_.body, level): return False
                continue
            if isinstance(s_, ast.Expr) and isinstance(s_.value, ast.Call) and isinstance(s_.value.func, ast.Attribute) and s_.value.func.attr in ('append', 'add') and len(s_.value.args) == 1 and i == len(stmts) - 1:
                result.append((s_.value.func.value, 'list' if s_.value.func.attr == 'append' else 'set', sx(s_.value.args[0]), None)); continue
            if isinstance(s_, ast.Assign) and len(s_.targets) == 1 and isinstance(s_.targets[0], ast.Subscript) and i == len(stmts) - 1:
                result.append((s_.targets[0].value, 'dict', sx(s_.value), sx(s_.targets[0].slice))); continue
            if isinstance(s_, ast.For) and not s_.orelse and i == len(stmts) - 1:
                gens.append(ast.comprehension(target=s_.target, iter=sx(s_.iter), ifs=[], is_async=0))
                if not walk(s_.body, len(gens) - 1): return False
                continue
            return False
        return True

    if st.orelse or not walk(st.body, 0) or len(result) != 1: return None
    target, kind, elt, key = result[0]
    if not isinstance(target, (ast.Name, ast.Attribute)): return None
    if kind == 'dict': fake = ast.DictComp(key=key, value=elt, generators=gens)
    elif kind == 'set': fake = ast.SetComp(elt=elt, generators=gens)
    else: fake = ast.ListComp(elt=elt, generators=gens)
    ast.fix_missing_locations(fake)
    return target, kind, fake


def _const_sign(v):
    if isinstance(v, ast.UnaryOp) and isinstance(v.op, (ast.USub, ast.UAdd)) and isinstance(v.operand, ast.Constant) and v.operand.value == 1:
        return -1 if isinstance(v.op, ast.USub) else 1
    if isinstance(v, ast.Constant) and v.value == 1: return 1
    return None


def _terminal_of(target, guards):
    """which terminal (node1/node2) an incidence store refers to: from the index expression or from the dominating guard"""
    src = ast.unparse(target)
    for t in ('node1', 'node2'):
        if t in src: return t
    for test, pol in reversed(guards):
        s = ast.unparse(test)
        for t in ('node1', 'node2'):
            if t in s and isinstance(test, ast.Compare) and len(test.ops) == 1:
                if (isinstance(test.ops[0], ast.Eq) and pol) or (isinstance(test.ops[0], ast.NotEq) and not pol): return t
                if (isinstance(test.ops[0], ast.NotEq) and pol): continue
    return None


def _closure_key(v, neg=False):
    """filter key of a predicate VALUE (named function, lambda or nested def whose body is one returned condition)"""
    if v is None: return None
    if v.kind == 'func' and v.fn.name.startswith('is_'):
        return ('notpred:' if neg else 'pred:') + v.fn.name
    if v.kind == 'closure':
        fn = v.fn
        body = fn.body if isinstance(fn, ast.Lambda) else None
        if body is None:
            from .prog import returned_expr
            try: body = returned_expr(fn)
            except Exception: body = None
        if body is None: return None
        a = fn.args.args[0].arg if fn.args.args else None
        k = _filter_key(body, a, lambda nm: v.env.get(nm))
        if neg:
            if k.startswith('pred:'): return 'not' + k
            if k.startswith('notpred:'): return k[3:]
            if k.startswith('in:'): return 'not' + k
            if k.startswith('notin:'): return k[3:]
            return None
        return k
    return None


def _filter_key(cond, target, lookup=None) -> str:
    """canonical key of a label filter in a comprehension / lambda; `lookup` resolves local names bound to predicate values"""
    s = ast.unparse(cond)
    neg = False
    n = cond
    if isinstance(n, ast.UnaryOp) and isinstance(n.op, ast.Not): neg, n = True, n.operand
    if isinstance(n, ast.Compare) and len(n.ops) == 1:
        op = n.ops[0]; right = ast.unparse(n.comparators[0])
        if isinstance(op, (ast.In, ast.NotIn)):
            name = right.split('.')[-1]
            if name in ('keys()',): name = right.split('.')[-2]
            isin = isinstance(op, ast.In) != neg
            return ('in:' if isin else 'notin:') + name
        if isinstance(op, (ast.NotEq, ast.Eq)) and ('node_zero_label' in right or 'node_zero_label' in ast.unparse(n.left)):
            ne = isinstance(op, ast.NotEq) != neg
            return 'ne:zero' if ne else 'eq:zero'
    if isinstance(n, ast.Call):
        fname = n.func.attr if isinstance(n.func, ast.Attribute) else getattr(n.func, 'id', '?')
        if lookup is not None and isinstance(n.func, ast.Name):
            k = _closure_key(lookup(n.func.id), neg)
            if k is not None: return k
        if fname.startswith('is_'):
            return ('notpred:' if neg else 'pred:') + fname
    return 'filter:' + s + '#' + str(next(_unk))


def _sorted_space(sp):
    if sp[0] == 'S': return ('S', sp[1], 'sorted')
    if sp[0] == 'CAT':
        parts = flat(sp)
        if all(p[0] == 'S' for p in parts):
            return ('S', '|'.join(sorted(p[1] for p in parts)), 'sorted')
    if sp[0] == 'SUB' and sp[1][0] == 'S':
        return ('SUB', ('S', sp[1][1], 'sorted'), sp[2])
    return U('sorted')


def _enumerate_space(d):
    """space of LabelMapping({k: v for v, k in enumerate(L)}) -- keys must be the labels and values their positions"""
    if d.kind != 'dictcomp': return None
    if d.key.kind == 'label' and d.value.kind == 'index' and d.value.offset is None and same(d.key.space, d.value.space) is True:
        return d.space
    return None


def _retag(sp, ident):
    if not ident: return sp
    if sp[0] == 'S': return ('S', sp[1] + '@net' + str(ident), sp[2])
    if sp[0] in ('CAT',): return ('CAT', _retag(sp[1], ident), _retag(sp[2], ident))
    if sp[0] == 'SUB': return ('SUB', _retag(sp[1], ident), sp[2])
    return sp


_MAPPER_CACHE = {}


def mapper_space(prog: Program, mod: Module, fn: ast.FunctionDef):
    """space of the LabelMapping returned by a mapper function `def f(network) -> LabelMapping`, derived from its body (None if not a mapper)"""
    cache = prog.__dict__.setdefault('_mapper_cache', {})
    key = (mod.name, fn.name)
    if key in cache: return cache[key]
    ret = ast.unparse(fn.returns) if fn.returns is not None else ''
    pos = params_of(fn)[0]
    ann = ast.unparse(fn.args.args[0].annotation) if len(pos) == 1 and fn.args.args and fn.args.args[0].annotation is not None else None
    if 'LabelMapping' not in ret or len(pos) != 1 or fn.name == 'filter' or (ann is not None and 'Network' not in ann and 'network' not in pos[0]):
        cache[key] = None; return None
    cache[key] = U('recursive')
    it = Interp(prog)
    r = it.call_function(mod, fn, [V('network')], {}, None, None, 0)
    sp = r.space if r is not None and r.kind == 'map' else U('mapper:' + fn.name)
    cache[key] = sp
    return sp
