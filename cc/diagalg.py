"""Diagonal algebra on E1 term keys: the diagonal of matrices assembled from np.diag / block stacking / comprehensions.

A *vector* is a list of segments (f, src): the values f(x) for x running over the primitive iterable `src` (a key such as
values(c_values)), f a polynomial in the variable atom 'x'.  dv(key) gives
    ('vec', segments)      a 1-D sequence
    ('mat', segments)      a square matrix that is zero off its diagonal, with that diagonal
    None                   not of this form
np.diag maps a vector to a matrix and a matrix to its diagonal; block stacks with zero off-diagonal blocks concatenate; a
comprehension over a vector maps its element expression over every segment.  Different spellings of one diagonal matrix
(np.diag of a concatenated list, block stack of two np.diag, scipy block_diag, reciprocal of a diagonal, inverse of a diagonal
matrix) therefore have one normal form.
"""
from __future__ import annotations
from fractions import Fraction as F
from .terms import Poly

X = Poly.atom('x')


def _poly(k):
    return Poly({mono: c for mono, c in k[1:]}) if isinstance(k, tuple) and k[:1] == ('poly',) else None


def _is_zeros(k):
    if isinstance(k, tuple) and k[:2] in (('opq', 'np.zeros'), ('opq', 'np.zeros_like')): return True
    p = _poly(k)
    if p is not None:
        if p.is_zero(): return True
        sg = p.single()
        if sg is not None and len(sg[0]) == 1 and sg[0][0][1] == 1: return _is_zeros(sg[0][0][0])
        return False
    if isinstance(k, tuple) and len(k) == 2 and k[0] == 'T': return _is_zeros(k[1])
    if isinstance(k, tuple) and k[:2] in (('opq', 'np.transpose'), ('opq', 'np.copy')) and len(k) == 3: return _is_zeros(k[2])
    return False


def dv(k, depth=0):
    if depth > 12 or not isinstance(k, tuple) or not k: return None
    p = _poly(k)
    if p is not None:
        # ±1 · atom, or a scalar multiple of a matrix/vector atom
        sg = p.single()
        if sg is not None and len(sg[0]) == 1 and sg[0][0][1] in (1, -1) and sg[1][1] == 0:
            at, e = sg[0][0]
            inner = dv(at, depth + 1) if isinstance(at, tuple) else None
            if inner is None: return None
            if inner[0] == 'bad': return inner
            c = Poly.const(sg[1][0])
            if e == 1: return (inner[0], [(f * c if isinstance(f, Poly) else ('raw', (sg[1], f)), src) for f, src in inner[1]])
            if e == -1 and inner[0] == 'vec':           # c / v for a vector v: the element-wise reciprocal
                return ('vec', [(f.inv() * c if isinstance(f, Poly) else ('raw', ('inv', f)), src) for f, src in inner[1]])
            return None
        return None
    h = k[0]
    if h in ('diag', 'diagonal') and len(k) == 2:          # np.diag in its atom spelling (the argument was a plain term)
        return dv(('opq', 'np.' + h, k[1]), depth + 1)
    if h == 'inv' and len(k) == 2:                         # inverse of a diagonal matrix
        inner = dv(k[1], depth + 1)
        if inner and inner[0] == 'mat': return ('mat', [(f.inv() if isinstance(f, Poly) else ('raw', ('inv', f)), src) for f, src in inner[1]])
        return None
    if h == 'call' and len(k) == 4 and isinstance(k[1], tuple) and k[1][0] == 'ext' and k[1][1].split('.')[-1] == 'inv' and len(k[2]) == 1:
        inner = dv(k[2][0], depth + 1)
        if inner and inner[0] == 'mat': return ('mat', [(f.inv() if isinstance(f, Poly) else ('raw', ('inv', f)), src) for f, src in inner[1]])
        return None
    if h == 'call' and len(k) == 4 and isinstance(k[1], tuple) and k[1][0] == 'ext' and k[1][1].split('.')[-1] == 'block_diag':
        segs = []
        for a in k[2]:
            inner = dv(a, depth + 1)
            if not inner or inner[0] != 'mat': return None
            segs += inner[1]
        return ('mat', segs)
    if h == 'comp' and k[1] in ('list', 'gen') and len(k[3]) == 1 and not k[3][0][1]:
        elt, it = _poly(k[2]), k[3][0][0]
        beta = ('β', 0, it)
        if elt is None:
            # an element expression that is not a polynomial of the bound variable (a conditional, ...): kept verbatim, equal to nothing expected
            inner = dv(it, depth + 1)
            if inner is not None and inner[0] == 'vec' and repr(beta) in repr(k[2]):
                return ('vec', [(('raw', k[2]), src) for f, src in inner[1]])
            return None
        if any(isinstance(a, tuple) and a[:1] == ('β',) and a != beta for a in elt.atoms()): return None
        inner = dv(it, depth + 1)
        if inner is not None and inner[0] == 'bad': return inner
        if inner is None:
            if isinstance(it, tuple) and it[:2] in (('opq', 'values'), ('opq', 'keys')) or _poly(it) is not None:
                inner = ('vec', [(X, it)])
            else:
                return None
        if inner[0] != 'vec': return None
        return ('vec', [(elt.subst(lambda a, f=f: f if a == beta else None) if isinstance(f, Poly) else ('raw', (k[2], f)), src) for f, src in inner[1]])
    if h == 'call' and len(k) == 4 and isinstance(k[1], tuple) and k[1][0] == '.' and k[1][2] in ('copy', 'tolist', 'ravel', 'flatten') and not k[2] and not k[3]:
        return dv(('poly', (((k[1][1], F(1)),), (F(1), F(0)))) if not (isinstance(k[1][1], tuple) and k[1][1][:1] == ('poly',)) else k[1][1], depth + 1)
    if h == 'opq' and len(k) >= 4 and k[1] == 'build':
        # values stored into a diagonal / value vector after it was formed: it is no longer the vector of the element values
        inner = dv(k[2], depth + 1)
        if inner is not None and inner[0] in ('vec', 'mat') and k[3]:
            return ('bad', 'entries of the value vector are overwritten (data-dependent store) before it is used')
        return inner if inner is not None and inner[0] == 'bad' else None
    if h == 'opq' and len(k) == 5 and k[1] == 'np.where':
        # np.where(test, replacement, values): some entries of the value vector are replaced by something else before it is used
        for alt in (k[3], k[4]):
            inner = dv(alt, depth + 1)
            if inner is not None and inner[0] in ('vec', 'mat'):
                return ('bad', 'entries of the value vector are replaced conditionally (np.where) before it is used')
        return None
    if h == 'opq' and len(k) >= 3:
        fn = k[1]
        if fn in ('values',) and len(k) == 3: return ('vec', [(X, k)])
        if fn in ('list', 'tuple', 'np.array', 'np.asarray') and len(k) == 3: return dv(k[2], depth + 1)
        if fn == 'np.diag' and len(k) == 3:
            inner = dv(k[2], depth + 1)
            if inner is None or inner[0] == 'bad': return inner
            return ('mat' if inner[0] == 'vec' else 'vec', inner[1])
        if fn == 'np.diagonal' and len(k) == 3:
            inner = dv(k[2], depth + 1)
            return ('vec', inner[1]) if inner and inner[0] == 'mat' else None
        if fn == 'concat':
            segs = []
            for a in k[2:]:
                inner = dv(a, depth + 1)
                if not inner or inner[0] != 'vec': return None
                segs += inner[1]
            return ('vec', segs)
        if fn in ('hcat', 'vcat'):
            parts = [dv(a, depth + 1) for a in k[2:]]
            if all(p_ is not None and p_[0] == 'vec' for p_ in parts):
                return ('vec', [s for p_ in parts for s in p_[1]])
            if fn == 'vcat':
                rows = []
                for r in k[2:]:
                    if isinstance(r, tuple) and r[:2] == ('opq', 'hcat'): rows.append(list(r[2:]))
                    else: return None
                n = len(rows)
                if any(len(r) != n for r in rows): return None
                segs = []
                for i, r in enumerate(rows):
                    for j, blk in enumerate(r):
                        if i == j:
                            inner = dv(blk, depth + 1)
                            if _is_zeros(blk): return ('bad', f'diagonal block ({i},{j}) of the block matrix is a zero block')
                            if not inner or inner[0] != 'mat': return None
                            segs += inner[1]
                        elif not _is_zeros(blk):
                            inner = dv(blk, depth + 1)
                            if inner and inner[0] == 'mat': return ('bad', f'off-diagonal block ({i},{j}) of the block matrix is a non-zero diagonal matrix')
                            return None
                return ('mat', segs)
        if fn == 'np.reciprocal' and len(k) == 3:
            inner = dv(k[2], depth + 1)
            return (inner[0], [(f.inv() if isinstance(f, Poly) else ('raw', ('inv', f)), src) for f, src in inner[1]]) if inner and inner[0] == 'vec' else None
    return None


def show(d):
    if d is None: return 'not a diagonal form'
    if d[0] == 'bad': return 'NOT diagonal: ' + d[1]
    return f"{d[0]}[" + ' ; '.join(f"{f!r} for x in {_short(src)}" for f, src in d[1]) + ']'


def _short(src):
    r = repr(src)
    for nm in ('c_values', 'l_values'):
        if f"'{nm}'" in r: return f'{nm}.values()' if "'values'" in r else nm
    return r[:60]
