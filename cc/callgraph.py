"""Call graph over the resolved program (built with the callee resolution of the effect engine)."""
from __future__ import annotations
import ast
from .effects import Effects, _Ctx
from .prog import params_of

_CG = {}


def call_graph(prog):
    if hasattr(prog, '_callgraph'): return prog._callgraph
    eff = Effects(prog)
    g = {}
    for q, f in prog.funcs.items():
        out = set()
        pos, defaults, vararg, kwarg, kwonly, _ = params_of(f.node)
        env = {p: set() for p in pos + kwonly}
        c = _Ctx(eff, f, env, {})
        # nested defs are callable by name
        top = f
        while top.parent is not None: top = top.parent
        for q2, f2 in prog.funcs.items():
            if f2.parent is not None and q2.startswith(top.qual + '.'):
                c.local_fns[f2.node.name] = f2.node
        body = f.node.body if isinstance(f.node.body, list) else [f.node.body]
        for st in body:
            for n in ast.walk(st):
                if isinstance(n, ast.Call):
                    if isinstance(n.func, ast.Name) and n.func.id in c.local_fns:
                        q3 = eff.node2qual.get(id(c.local_fns[n.func.id]))
                        if q3: out.add(q3)
                    else:
                        out |= c.callees(n)
                elif isinstance(n, ast.Attribute):
                    # property access on package classes
                    for q3 in eff.by_property.get(n.attr, []): out.add(q3)
        g[q] = out
    prog._callgraph = g
    return g


def reachable(prog, start: str) -> set:
    g = call_graph(prog)
    if start not in g: raise KeyError(start)
    seen, todo = set(), [start]
    while todo:
        q = todo.pop()
        if q in seen: continue
        seen.add(q)
        todo += [x for x in g.get(q, ()) if x not in seen]
    return seen


def element_attr_reads(fn_node):
    """(attr, node) for attribute reads of the form <expr>.element.<attr> or on a parameter named/annotated as an element"""
    out = []
    elem_params = set()
    if isinstance(fn_node, ast.FunctionDef):
        for a in fn_node.args.args:
            ann = ast.unparse(a.annotation) if a.annotation is not None else ''
            if 'NortenTheveninElement' in ann or a.arg == 'element': elem_params.add(a.arg)
    for n in ast.walk(fn_node):
        if isinstance(n, ast.Attribute):
            v = n.value
            if isinstance(v, ast.Attribute) and v.attr == 'element': out.append((n.attr, n))
            elif isinstance(v, ast.Name) and v.id in elem_params: out.append((n.attr, n))
    return out
