"""E4t -- index-space typing of the matrix code on E1 NORMAL FORMS (term keys) instead of syntax.

The functions under analysis are first evaluated by the term evaluator (helpers inlined, loops summarised as comprehensions / array
builds / stacks, call spellings canonical).  This module then infers, for every sub-term, which ordered label set lays out each array
axis and from which label set each index is drawn, with the space algebra of cc.spaces, and emits the same obligations as the
syntax-directed engine (index / store-index / fancy-index / matmul / stack / solve / inv / prefix- and suffix-slice / position-of /
returns-agree / solver-input).  Because it reads normal forms, it does not depend on how the code is spelled.

Types:  ('arr', axes) ('map', space) ('size', space) ('negsize', space) ('idx', space, offset) ('idxplus', idx, c) ('lab', space)
        ('labs', space) ('idxs', space, result) ('dict', name) ('net', ident) ('branch', space) ('branches', ident) ('elem',) ('num',)
        ('tuple', [types]) ('shape', axes) ('obj', cls, fields) ('unk', why)
"""
from __future__ import annotations
import ast, itertools, hashlib
from fractions import Fraction as F
from .spaces import U, ONE, flat, same, is_prefix, is_suffix, block_at, show, _sorted_space, _retag, _is_label_space, Obligation, has_u

NUM = ('num',)
_cnt = itertools.count()


def unk(why=''): return ('unk', why)


def _poly_items(k):
    return k[1:] if isinstance(k, tuple) and k[:1] == ('poly',) else None


def _h(k):
    return hashlib.sha1(repr(k).encode()).hexdigest()[:6]


class Typer:
    def __init__(s, prog, entry, site='', dicts=(), labels=(), mapper_of=None, arrays=None):
        s.prog, s.entry, s.site = prog, entry, site
        s.obs: list[Obligation] = []
        s.memo = {}
        s.keep = []
        s.dicts = set(dicts)            # atom names that are value dictionaries (c_values, l_values)
        s.labels = set(labels)          # atom names that are labels of unknown origin (query arguments)
        s.arrays = dict(arrays or {})   # atom names that are arrays with declared axes
        s.netids = {}
        s.mapper_of = mapper_of or (lambda name: None)
        s.summaries = {}                # function name -> (parameter names, result type, dict parameter names, default mapper keys)
        s._seen_obs = set()
        s.context = ''

    # ------------------------------------------------------------------ obligations
    def ob(s, kind, verdict, detail, text='', spaces=()):
        if spaces and not any(_is_label_space(x) for x in spaces): return
        sig = (kind, detail, text[:90])
        if sig in s._seen_obs: return
        s._seen_obs.add(sig)
        s.obs.append(Obligation(s.context or s.entry, kind, verdict, detail, s.site, text[:90]))

    # ------------------------------------------------------------------ network identity
    def net_ident(s, k):
        if k in ('network',) or k == ('.', 'self', 'network') or k == ('poly', ((('network', F(1)),), (F(1), F(0)))): return 0
        r = repr(k)
        if r not in s.netids: s.netids[r] = len(s.netids) + 1
        return s.netids[r]

    # ------------------------------------------------------------------ entry
    def ty(s, k):
        """type of a key (poly key, opq key, comp key, ... or a bare atom)"""
        try:
            hk = hash(k)
        except TypeError:
            return unk('unhashable')
        if hk in s.memo and s.memo[hk][0] == k: return s.memo[hk][1]
        s.memo[hk] = (k, unk('recursive'))
        t = s._ty(k)
        s.memo[hk] = (k, t)
        return t

    def _ty(s, k):
        if isinstance(k, bool) or k is None or isinstance(k, (int, float, F)): return NUM
        if isinstance(k, str): return s.atom(k)
        if not isinstance(k, tuple) or not k: return unk('empty')
        h = k[0]
        if h == 'poly': return s.poly(k)
        if h == 'opq': return s.opq(k)
        if h == 'comp': return s.comp(k)
        if h == 'rec': return s.rec(k)
        if h == 'cond':
            a, b = s.ty(k[2]), s.ty(k[3])
            s.ty(k[1])
            if a[0] == 'arr' and b[0] == 'arr' and len(a[1]) == len(b[1]):
                for x, y in zip(a[1], b[1]):
                    s.ob('returns-agree', same(x, y), f"one branch yields {show(x)}, the other {show(y)}", repr(k)[:80], (x, y))
            u_ = b if a[0] == 'arr' else a
            if ((a[0] == 'arr' and b[0] == 'unk') or (b[0] == 'arr' and a[0] == 'unk')) and len(u_) > 1 and str(u_[1]).startswith(('mutated', 'opq ?', 'opq mutated')):
                # an array on one path, something that was not followed on the other (e.g. an array written through an unrecognised statement)
                s.ob('returns-agree', None, f"one branch yields an array laid out {' × '.join(show(x) for x in (a if a[0] == 'arr' else b)[1])}, the other branch was not typed ({(b if a[0] == 'arr' else a)[1] if len(b if a[0] == 'arr' else a) > 1 else '?'})", repr(k)[:80])
            return a if a[0] != 'unk' and a != NUM else (b if b[0] != 'unk' else a)
        if h in ('list', 'tuple'):
            items = [s.ty(x) for x in k[1]]
            return ('tuple', items)
        if h == 'dict':
            for kk, vv in k[1]: s.ty(vv)
            return ('dictlit',)
        if h in ('closure', 'ref'): return ('fn', k)
        return s.atom(k)

    # ------------------------------------------------------------------ polynomials
    def poly(s, k):
        items = _poly_items(k)
        if not items: return NUM
        types = []
        for mono, (re, im) in items:
            if mono == ():
                types.append((('const', re), re)); continue
            ats = [s.ty_atom(at) for at, e in mono]
            arrs = [t for t in ats if t[0] == 'arr']
            if len(mono) == 1 and mono[0][1] == 1: types.append((ats[0], re))
            elif arrs: types.append((arrs[0], re))
            else: types.append((NUM, re))
        if len(types) == 1:
            t, c = types[0]
            if t[0] == 'const': return NUM
            if t[0] == 'size' and c == -1: return ('negsize', t[1])
            return t
        arrs = [t for t, c in types if t[0] == 'arr']
        if arrs:
            for a in arrs[1:]:
                if len(a[1]) == len(arrs[0][1]):
                    for x, y in zip(arrs[0][1], a[1]):
                        s.ob('elementwise', same(x, y), f"{show(x)} combined element-wise with {show(y)}", repr(k)[:80], (x, y))
            return arrs[0]
        idxs = [(t, c) for t, c in types if t[0] == 'idx']
        sizes = [(t, c) for t, c in types if t[0] == 'size']
        consts = [t[1] for t, c in types if t[0] == 'const']
        if len(idxs) == 1 and idxs[0][1] == 1 and len(idxs) + len(sizes) + len(consts) == len(types):
            ix = idxs[0][0]
            if len(sizes) == 1 and sizes[0][1] == 1 and not consts and ix[2] is None: return ('idx', ix[1], sizes[0][0][1])
            if not sizes and len(consts) == 1: return ('idxplus', ix, consts[0])
            if len(sizes) == 1 and sizes[0][1] == 1 and len(consts) == 1 and ix[2] is None: return ('idxplus', ('idx', ix[1], sizes[0][0][1]), consts[0])
        if len(sizes) == len(types) and all(c == 1 for _, c in sizes):
            # a sum of sizes: the blocks are known, their ORDER is not (addition commutes) -- fixed later by the slices that fill the array
            return ('size', ('ANY', tuple(sorted((t[1] for t, _ in sizes), key=repr))))
        return NUM

    def ty_atom(s, at):
        if isinstance(at, str): return s.atom(at)
        return s.ty(at) if isinstance(at, tuple) and at[:1] in (('poly',), ('opq',), ('comp',), ('rec',), ('cond',)) else s.atom(at)

    def any(s, k):
        """atom-name slots hold either a bare atom or a full key"""
        return s.ty(k)

    # ------------------------------------------------------------------ atoms
    def atom(s, at):
        if isinstance(at, str):
            if at == 'network': return ('net', 0)
            if at in s.dicts: return ('dict', at)
            if at in s.labels: return ('lab', U('argument'))
            if at in s.arrays: return ('arr', tuple(s.arrays[at]))
            if at == 'circuit': return ('circuit',)
            return unk('atom ' + at)
        if not isinstance(at, tuple) or not at: return unk('atom')
        h = at[0]
        if h == '.': return s.attr(at)
        if h == '[]': return s.item(at)
        if h == 'call': return s.call(at)
        if h == 'β': return s.elem(s.ty(at[2]), at)
        if h == 'idx':
            it = s.iter_space(s.ty(at[2]))
            return ('idx', it if it is not None else U('enumerate'), None)
        if h in ('keyof',):
            t = s.ty(at[2])
            if t[0] == 'items': t = t[1]
            if t[0] == 'dictmap': return ('lab', t[1])
            return ('lab', ('ORD', t[1])) if t[0] == 'dict' else unk('keyof')
        if h in ('valof',):
            t = s.ty(at[2])
            if t[0] == 'items': t = t[1]
            if t[0] == 'dictmap': return ('idx', t[1], None)          # the (label, index) pairs of a label mapping
            return NUM
        if h == 'matmul':
            a, b = s.ty(at[1]), s.ty(at[2])
            if a[0] == 'arr' and b[0] == 'arr' and a[1] and b[1]:
                s.ob('matmul', same(a[1][-1], b[1][0]), f"{show(a[1][-1])} contracted with {show(b[1][0])}", repr(at)[:80], (a[1][-1], b[1][0]))
                return ('arr', tuple(a[1][:-1]) + tuple(b[1][1:]))
            return unk('matmul')
        if h == 'ix_': return ('ix', [s.ty(a) for a in at[1:]])
        if h == 'T':
            a = s.ty(at[1])
            if a[0] == 'tuples':
                def col(x): return ('idxs', x[1], a[1]) if x[0] == 'idx' else (('labs', a[1]) if x[0] == 'lab' else ('arr', (a[1],)))
                return ('tuple', [col(x) for x in a[2]])
            return ('arr', tuple(reversed(a[1]))) if a[0] == 'arr' else a
        if h == 'inv':
            a = s.ty(at[1])
            if a[0] == 'arr' and len(a[1]) == 2:
                s.ob('inv:square', same(a[1][0], a[1][1]), f"inverse of a matrix laid out {show(a[1][0])} × {show(a[1][1])}", repr(at)[:80])
                return ('arr', (a[1][1], a[1][0]))
            return a if a[0] == 'arr' else NUM
        if h in ('real', 'imag', 'conj', 'abs', 'angle', 'exp', 'cos', 'sin', 'sqrt'):
            a = s.ty(at[1]) if len(at) > 1 else NUM
            return a if a[0] == 'arr' else NUM
        if h in ('int', 'float') and len(at) == 2: return s.ty(at[1])          # a conversion keeps the quantity
        if h == 'len':
            sp = s.iter_space(s.ty(at[1]))
            return ('size', sp if sp is not None else U('len'))
        if h == 'slice': return s.slice_atom(at)
        if h == 'reshape' and len(at) >= 3:
            s.ty(at[1])
            return ('arr', tuple(s.shape_axes(at[2])))
        if h in ('eye', 'identity') and len(at) >= 2:
            a = s.ty(at[1]); sp = a[1] if a[0] == 'size' else U('eye')
            return ('arr', (sp, sp))
        if h == 'size' and len(at) >= 2:
            a = s.ty(at[1]); return ('size', a[1][0]) if a[0] == 'arr' and len(a[1]) == 1 else ('size', U('size'))
        if h in ('carried',): return unk('carried')
        if h in ('num', 'pow', 'floor', 'mod', 'sentinel'): return NUM
        if isinstance(h, str) and h in ('flatnonzero', 'nonzero', 'where', 'any', 'all', 'diag', 'diagonal', 'setdiff1d', 'unique', 'sort', 'isnan', 'isfinite', 'logical_not', 'hstack', 'vstack', 'concatenate'):
            # the same function in its atom spelling (its first argument was a plain term): keyword pairs become keyword operands
            ops = [('opq', 'kw', x[0], x[1]) if isinstance(x, tuple) and len(x) == 2 and isinstance(x[0], str) and x[0] in ('axis', 'k', 'dtype') else x for x in at[1:]]
            return s.opq(('opq', 'np.' + h) + tuple(ops))
        # an uninterpreted numpy function applied to terms: its arguments are typed all the same (their obligations count)
        inner = [s.ty(x) for x in at[1:] if isinstance(x, tuple)]
        if h in ('ravel', 'squeeze', 'flatten') and inner and inner[0][0] == 'arr':
            keep = [a for a in inner[0][1] if a != ONE]
            return ('arr', tuple(keep) if keep else (ONE,))
        if h in ('asarray', 'array', 'ascontiguousarray', 'copy', 'nan_to_num', 'negative', 'float64', 'complex128') and inner: return inner[0]
        return unk(str(h))

    def iter_space(s, t):
        if t[0] in ('map', 'dictmap') and len(t) > 2: return t[2]          # iterated in KEY order, which need not be the index order
        if t[0] in ('labs', 'map', 'lab', 'dictmap'): return t[1]
        if t[0] == 'idxs': return t[2]
        if t[0] == 'dict': return ('ORD', t[1])
        if t[0] == 'vals': return t[1]
        if t[0] == 'arr' and t[1]: return t[1][0]
        if t[0] == 'branches': return ('S', 'branch', 'listing') if not t[1] else ('S', 'branch@net' + str(t[1]), 'listing')
        if t[0] == 'components': return ('S', 'component', 'listing')
        return None

    def elem(s, t, at=None):
        """type of the element of an iterable of type t"""
        if t[0] in ('labs', 'map', 'dictmap'): return ('lab', t[1])
        if t[0] == 'idxs': return ('idx', t[1], None)
        if t[0] == 'dict': return ('lab', ('ORD', t[1]))
        if t[0] == 'branches': return ('branch', s.iter_space(t))
        if t[0] == 'components': return ('component',)
        if t[0] == 'arr': return ('arr', tuple(t[1][1:])) if len(t[1]) > 1 else NUM
        if t[0] == 'tuple' and t[1]: return t[1][0]
        if t[0] == 'vals': return NUM
        return unk('element')

    def attr(s, at):
        b, a = s.any(at[1]), at[2]
        if at[1] == 'self': return unk('self.' + a)
        if b[0] == 'map':
            if a == 'N': return ('size', b[1])
            ko = b[2] if len(b) > 2 else b[1]          # order in which the keys are listed
            if a == 'keys': return ('labs', ko)
            if a == 'values': return ('idxs', b[1], ko)
            if a == 'mapping': return ('dictmap', b[1]) + ((b[2],) if len(b) > 2 else ())
        if b[0] == 'arr':
            if a == 'T': return ('arr', tuple(reversed(b[1])))
            if a in ('real', 'imag'): return b
            if a == 'shape': return ('shape', b[1])
            if a == 'size' and len(b[1]) == 1: return ('size', b[1][0])
            if a == 'ndim': return NUM
        if b[0] == 'net':
            tag = '' if not b[1] else '@net' + str(b[1])
            if a == 'branches': return ('branches', b[1])
            if a == 'node_zero_label': return ('lab', ('ZERO',))
            if a == 'node_labels': return ('labs', ('S', 'node' + tag, 'sorted'))
            if a == 'branch_ids': return ('labs', ('S', 'branch' + tag, 'listing'))
            if a == 'number_of_nodes': return NUM
        if b[0] == 'circuit':
            if a == 'components': return ('components',)
            if a == 'ground_node': return ('lab', ('ZERO',))
        if b[0] == 'component': return NUM
        if b[0] == 'branch':
            if a in ('node1', 'node2'): return ('lab', ('S', 'node', 'any'))
            if a == 'id': return ('lab', b[1])
            if a == 'element': return ('elem',)
        if b[0] == 'elem': return NUM
        if b[0] == 'obj':
            f = dict(b[2])
            if a in f: return s.ty(f[a])
        if b[0] == 'dict' and a in ('keys', 'values', 'items'): return ('fnattr', b, a)
        return unk(f'.{a} of {b[0]}')

    # ------------------------------------------------------------------ indexing
    def check_index(s, idx, axis, text, what='index'):
        if idx[0] == 'idxplus': idx = idx[1]
        if idx[0] == 'idx':
            ok = block_at(idx[2], idx[1], axis) if idx[2] is not None else is_prefix(idx[1], axis)
            s.ob(what, ok, f"index drawn from {show(idx[1])}" + (f" at offset |{show(idx[2])}|" if idx[2] is not None else '') + f" addresses an axis laid out as {show(axis)}", text)
            return True
        if idx[0] == 'idxs':
            s.ob('fancy-index', same(idx[1], axis), f"index list drawn from {show(idx[1])} selects on an axis laid out as {show(axis)}", text)
            return True
        return False

    def index_array(s, arr, items, text, what='index'):
        """apply a list of index item TYPES (or ('slice', lo, up) tuples) to the axes of an array type"""
        axes = list(arr[1]); out = []
        for k, it in enumerate(items):
            if k >= len(axes): break
            if it[0] == 'slice':
                lo, up = it[1], it[2]
                if lo is None and up is None: out.append(axes[k]); continue
                if lo is None and up is not None and up[0] == 'size':
                    s.ob('prefix-slice', is_prefix(up[1], axes[k]), f"[:|{show(up[1])}|] taken from an axis laid out as {show(axes[k])}", text); out.append(up[1]); continue
                if up is None and lo is not None and lo[0] == 'negsize':
                    s.ob('suffix-slice', is_suffix(lo[1], axes[k]), f"[-|{show(lo[1])}|:] taken from an axis laid out as {show(axes[k])}", text); out.append(lo[1]); continue
                if up is None and lo is not None and lo[0] == 'size':
                    # [n:] : what follows the first block
                    fa = flat(axes[k]); fl = flat(lo[1])
                    ok = is_prefix(lo[1], axes[k])
                    s.ob('tail-slice', ok, f"[|{show(lo[1])}|:] taken from an axis laid out as {show(axes[k])}", text)
                    rest = fa[len(fl):] if ok else None
                    sp = U('tail')
                    if rest:
                        sp = rest[0]
                        for r in rest[1:]: sp = ('CAT', sp, r)
                    out.append(sp); continue
                if lo is not None and lo[0] in ('idx', 'idxplus'):
                    s.check_index(lo, axes[k], text, 'row-slice'); out.append(ONE); continue
                out.append(U('slice')); continue
            if it[0] == 'idxs':
                s.check_index(it, axes[k], text); out.append(it[2]); continue
            if it[0] in ('idx', 'idxplus'):
                s.check_index(it, axes[k], text, what); continue
            if it[0] == 'num': continue
            if it[0] == 'mask':
                s.ob('mask-select', same(it[1], axes[k]), f"mask laid out as {show(it[1])} selects on an axis laid out as {show(axes[k])}", text, (it[1], axes[k]))
                out.append(('SUB', axes[k], it[2])); continue
            if it[0] == 'arr' and len(it[1]) == 1:
                s.ob('mask-select', same(it[1][0], axes[k]), f"mask laid out as {show(it[1][0])} selects on an axis laid out as {show(axes[k])}", text, (it[1][0], axes[k]))
                out.append(('SUB', axes[k], 'data-dependent-mask#' + str(next(_cnt)))); continue
            if it[0] == 'tuple' and it[1] and all(x[0] in ('idx', 'idxplus') for x in it[1]) and len(items) == 1:
                for ax, i in zip(axes, it[1]): s.check_index(i, ax, text, what)
                return ('arr', tuple(axes[len(it[1]):])) if len(axes) > len(it[1]) else NUM
            if it[0] == 'ix' and len(items) == 1:
                res = []
                for ax, m in zip(axes, it[1]):
                    if m[0] == 'idxs':
                        s.check_index(m, ax, text); res.append(m[2])
                    elif m[0] == 'arr' and len(m[1]) == 1:
                        s.ob('mask-select', same(m[1][0], ax), f"mask laid out as {show(m[1][0])} selects on an axis laid out as {show(ax)}", text, (m[1][0], ax))
                        res.append(('SUB', ax, 'data-dependent-mask#' + str(next(_cnt))))
                    else: res.append(U('ix'))
                return ('arr', tuple(res) + tuple(axes[len(it[1]):]))
            out.append(U('index'))
        res = out + axes[len(items):]
        return ('arr', tuple(res)) if res else NUM

    def index_items(s, kk):
        """index item types of a subscript key (a single key or ('tuple', (keys...)))"""
        if isinstance(kk, tuple) and kk[:1] == ('tuple',): return [s.index_item(x) for x in kk[1]]
        if isinstance(kk, tuple) and kk[:1] == ('list',) and all(not isinstance(x, tuple) or x[:1] != ('opq',) for x in kk[1]): return [s.ty(kk)]
        return [s.index_item(kk)]

    def index_item(s, x):
        if isinstance(x, tuple) and x[:2] == ('opq', 'slice'):
            lo = s.ty(x[2]) if x[2] is not None else None
            up = s.ty(x[3]) if x[3] is not None else None
            return ('slice', lo, up)
        if isinstance(x, int) and not isinstance(x, bool): return NUM
        if isinstance(x, tuple) and x[:1] == ('comp',) and len(x) == 4 and x[1] in ('list', 'gen') and len(x[3]) == 1 and not x[3][0][1]:
            # a mask written as [test(l) for l in labels] with a NAMED test: selects the named subset of the axis the labels lay out
            fk = s.filter_key(x[2], ('β', 0, x[3][0][0]))
            sp = s.iter_space(s.ty(x[3][0][0]))
            if sp is not None and isinstance(fk, str) and fk.startswith(('in:', 'notin:', 'pred:', 'not:')): return ('mask', sp, fk)
        t = s.ty(x)
        if t[0] == 'labs': return unk('labels as index')
        if t[0] == 'tuple' and t[1] and all(e[0] in ('idx', 'idxplus') for e in t[1]): return t
        if t[0] == 'tuple' and t[1] and all(e[0] == 'idx' for e in t[1]): return t
        return t

    def item(s, at):
        b = s.any(at[1]); kk = at[2]
        if b[0] == 'map': return ('idx', b[1], None)
        if b[0] == 'dictmap': return ('idx', b[1], None)
        if b[0] == 'dict': return NUM
        if b[0] == 'net':
            t = s.ty(kk) if isinstance(kk, tuple) else unk('label')
            return ('branch', t[1] if t[0] == 'lab' else U('label'))
        if b[0] == 'shape' and isinstance(kk, int) and kk < len(b[1]): return ('size', b[1][kk])
        if b[0] == 'tuple' and isinstance(kk, int) and -len(b[1]) <= kk < len(b[1]): return b[1][kk]
        if b[0] == 'arr': return s.index_array(b, s.index_items(kk), repr(at)[:80])
        if b[0] in ('labs', 'idxs'):
            kt = s.ty(kk) if isinstance(kk, tuple) else None
            if kt is not None and kt[0] in ('arr', 'idxs', 'labs', 'vals'):
                # an array of positions / a mask as index: the selected sub-list (in order), not one element
                fk = None
                if kk[:1] == ('comp',) and len(kk) == 4 and len(kk[3]) == 1 and not kk[3][0][1]:
                    fk = s.filter_key(kk[2], ('β', 0, kk[3][0][0]))
                if fk is None or not fk.startswith(('in:', 'notin:', 'pred:', 'not:')): fk = 'filter:?#' + _h(kk)
                if b[0] == 'labs': return ('labs', ('SUB', b[1], fk))
                return ('idxs', b[1], ('SUB', b[2], fk))
            return s.elem(b)
        if b[0] == 'circuit': return ('component',)
        return unk('item of ' + b[0])

    def slice_atom(s, at):
        b = s.any(at[1])
        lo = s.ty(at[2]) if at[2] is not None else None
        up = s.ty(at[3]) if at[3] is not None else None
        if b[0] == 'arr': return s.index_array(b, [('slice', lo, up)], repr(at)[:80])
        if b[0] in ('labs', 'idxs'): return b
        return unk('slice of ' + b[0])

    # ------------------------------------------------------------------ calls
    def call(s, at):
        callee, args, kw = at[1], at[2], dict(at[3]) if len(at) > 3 else {}
        if isinstance(callee, tuple) and callee[:1] == ('fn',):
            name = callee[1]
            sp = s.mapper_of(name)
            if sp is not None:
                net = args[0] if args else kw.get('network')
                ident = s.net_ident(net) if net is not None else 0
                nt = s.ty(net) if net is not None else ('net', 0)
                if nt[0] == 'net': ident = nt[1]
                if isinstance(sp, tuple) and sp[:1] == ('KO',): return ('map', _retag(sp[1], ident), _retag(sp[2], ident))
                return ('map', _retag(sp, ident))
            if name in s.summaries:
                return s.instantiate(name, args, kw, at)
            if name in ('switch_ground_node', 'transform_circuit', 'remove_element', 'passive_network', 'remove_ideal_voltage_sources', 'remove_ideal_current_sources',
                        'short_circuitify_voltage_sources', 'open_circuitify_current_sources', 'remove_short_circuit_elements', 'remove_open_circuit_elements'):
                return ('net', s.net_ident(at))
            for a in args: s.ty(a)
            return NUM if name.startswith(('admittance', 'is_', 'impedance')) else unk('fn ' + name)
        if isinstance(callee, tuple) and callee[:1] == ('ext',):
            fn = callee[1].split('.')[-1]
            targs = [s.ty(a) for a in args]
            a = targs[0] if targs else NUM
            if fn == 'inv' and a[0] == 'arr' and len(a[1]) == 2:
                s.ob('inv:square', same(a[1][0], a[1][1]), f"inverse of a matrix laid out {show(a[1][0])} × {show(a[1][1])}", repr(at)[:80])
                return ('arr', (a[1][1], a[1][0]))
            if fn == 'solve' and len(targs) == 2 and a[0] == 'arr' and targs[1][0] == 'arr' and len(a[1]) == 2:
                b = targs[1]
                s.ob('solve:rhs', same(a[1][0], b[1][0]), f"equations laid out {show(a[1][0])}, right-hand side {show(b[1][0])}", repr(at)[:80])
                return ('arr', (a[1][1],) + tuple(b[1][1:]))
            if fn in ('matmul', 'dot') and len(targs) == 2 and a[0] == 'arr' and targs[1][0] == 'arr':
                b = targs[1]
                s.ob('matmul', same(a[1][-1], b[1][0]), f"{show(a[1][-1])} contracted with {show(b[1][0])}", repr(at)[:80], (a[1][-1], b[1][0]))
                return ('arr', tuple(a[1][:-1]) + tuple(b[1][1:]))
            if fn == 'lsim' and (kw.get('U') is not None or kw.get('T') is not None or kw.get('system') is not None):
                # scipy.signal.lsim(system, U, T, X0): keyword spelling of the same call
                names_ = ['system', 'U', 'T', 'X0']
                args = list(args) + [kw[n_] for n_ in names_[len(args):] if n_ in kw]
                targs = [s.ty(a_) for a_ in args]
                a = targs[0] if targs else NUM
            if fn == 'lsim' and len(args) >= 3:
                sysk = args[0]
                mats = None
                p_ = _poly_items(sysk)
                if p_ and len(p_) == 1 and len(p_[0][0]) == 1:
                    at_ = p_[0][0][0][0]
                    if isinstance(at_, tuple) and at_[:1] == ('call',) and len(at_[2]) == 4: mats = [s.ty(x) for x in at_[2]]
                if mats is None and a[0] == 'tuple' and len(a[1]) == 4: mats = a[1]
                if mats is None and a[0] == 'obj':
                    f_ = dict(a[2]); mats = [s.ty(f_[x]) for x in 'ABCD'] if all(x in f_ for x in 'ABCD') else None
                u = targs[1]; tt = targs[2]
                if mats and all(m_[0] == 'arr' and len(m_[1]) == 2 for m_ in mats) and u[0] == 'arr':
                    A_, B_, C_, D_ = mats
                    s.ob('solver-input', same(u[1][-1], B_[1][-1]), f"input series columns laid out {show(u[1][-1])}, model inputs (columns of B) {show(B_[1][-1])}", repr(at)[:80])
                    s.ob('solver-model', same(A_[1][0], B_[1][0]), f"A rows {show(A_[1][0])}, B rows {show(B_[1][0])}", repr(at)[:80])
                    tax = tt[1][0] if tt[0] == 'arr' and tt[1] else U('time')
                    return ('tuple', [('arr', (tax,)), ('arr', (tax, C_[1][0])), ('arr', (tax, A_[1][0]))])
                return unk('lsim')
            if fn == 'StateSpace' and len(targs) == 4: return ('tuple', targs)
            return a if a[0] == 'arr' else unk('ext ' + fn)
        if isinstance(callee, tuple) and callee[:1] == ('cls',):
            for a in args: s.ty(a)
            for v in kw.values(): s.ty(v)
            return ('obj', callee[1], tuple(sorted(kw.items())))
        if isinstance(callee, tuple) and callee[:1] == ('.',):
            b = s.any(callee[1]); m = callee[2]
            targs = [s.ty(a) for a in args]
            if m in ('tolist', 'copy') and b[0] in ('arr', 'idxs', 'labs'): return b
            if m == 'index' and targs and b[0] in ('labs', 'idxs', 'tuple'):
                if b[0] == 'idxs':
                    if targs[0][0] == 'idx':
                        s.ob('position-of', is_prefix(targs[0][1], b[1]), f"position of an index drawn from {show(targs[0][1])} looked up in a list of indices of {show(b[1])}", repr(at)[:80])
                    return ('idx', b[2], None)
                if b[0] == 'labs': return ('idx', b[1], None)
                return ('idx', U('index'), None)
            if b[0] == 'arr':
                if m in ('conjugate', 'conj', 'copy', 'astype'): return b
                if m in ('any', 'all'):
                    ax = kw.get('axis', args[0] if args else None)
                    if isinstance(ax, tuple):
                        p = _poly_items(ax)
                        axv = int(p[0][1][0]) if p and len(p) == 1 and p[0][0] == () else (0 if p == () else None)
                    else: axv = ax if isinstance(ax, int) else None
                    if ax == ('poly',): axv = 0
                    if axv is not None and len(b[1]) == 2: return ('arr', (b[1][1 - axv],))
                    return NUM
                if m == 'reshape': return ('arr', (U('reshape'),))
                if m in ('sum', 'max', 'min', 'mean'): return NUM
            if b[0] == 'map' and m == '__call__': return ('idx', b[1], None)
            if b[0] == 'net' and m in ('branches_between', 'branches_connected_to'): return ('branches', b[1] or 0)
            if b[0] == 'net' and m == 'is_zero_node': return NUM
            return unk(f'.{m}() of {b[0]}')
        # a value being called: LabelMapping.__call__(labels...) -> index (tuple)
        c = s.any(callee)
        for a in args: s.ty(a)
        if c[0] == 'map':
            stars = [a for a in args if isinstance(a, tuple) and a[:2] == ('opq', '*')]
            if stars:
                # mapping(*labels): the positions of ALL the labels, in their order -- a list of indices, not one index
                if len(args) == 1 and len(stars[0]) == 3:
                    sp = s.iter_space(s.ty(stars[0][2]))
                    return ('idxs', c[1], sp if sp is not None else U('starred labels'))
                return unk('call with starred and plain labels')
            ix = [('idx', c[1], None) for _ in args]
            return ix[0] if len(ix) == 1 else ('tuple', ix)
        if c[0] == 'fnattr' and c[2] in ('keys',): return ('labs', ('ORD', c[1][1]))
        if c[0] == 'fnattr' and c[2] in ('values',): return ('vals', ('ORD', c[1][1]))
        targs = [s.ty(a) for a in args]
        if len(targs) == 1 and targs[0][0] == 'arr' and not kw: return targs[0]      # unknown callable applied to a series: a series on the same axis
        return unk('call')

    def instantiate(s, name, args, kw, at):
        """result type of a call of a summarised function: the summary was typed for (network, <dict params>) with the default mappers; the
        network identity and the names of the value dictionaries of THIS call are substituted into its spaces"""
        params, result, dict_params, rest_defaults = s.summaries[name]
        bound = dict(zip(params, args)); bound.update(kw)
        for p_, dk in rest_defaults.items():
            if p_ in bound and bound[p_] != dk:
                return unk(f'{name} called with a non-default {p_}')
        ident = 0
        if 'network' in bound:
            nt = s.ty(bound['network'])
            ident = nt[1] if nt[0] == 'net' else s.net_ident(bound['network'])
        ren = {}
        for dp in dict_params:
            if dp in bound:
                dt = s.ty(bound[dp])
                if dt[0] != 'dict': return unk(f'{name}: {dp} is not a value dictionary')
                ren[dp] = dt[1]
                if dp == 'l_values':
                    from . import spaces as _sp
                    _sp.INDUCTANCE_DICTS.add(dt[1])
        def rs(sp):
            if not isinstance(sp, tuple): return sp
            if sp[0] == 'ORD': return ('ORD', ren.get(sp[1], sp[1]))
            if sp[0] == 'S': return ('S', sp[1] + ('@net' + str(ident) if ident else ''), sp[2])
            if sp[0] == 'SUB':
                f = sp[2]
                for a, b in ren.items():
                    if isinstance(f, str): f = f.replace(':' + a, ':' + b)
                return ('SUB', rs(sp[1]), f)
            if sp[0] in ('CAT',): return ('CAT', rs(sp[1]), rs(sp[2]))
            if sp[0] == 'SORT': return ('SORT', rs(sp[1]))
            return sp
        def rt(t):
            if t[0] == 'arr': return ('arr', tuple(rs(a) for a in t[1]))
            if t[0] == 'tuple': return ('tuple', [rt(x) for x in t[1]])
            return t
        return rt(result)

    # ------------------------------------------------------------------ opaque heads
    def shape_axes(s, shk):
        t = s.ty(shk)
        items = t[1] if t[0] == 'tuple' else [t]
        raw = shk[1] if isinstance(shk, tuple) and shk[:1] in (('tuple',), ('list',)) else [shk]
        out = []
        for i, it in enumerate(items):
            if it[0] == 'size': out.append(it[1])
            else:
                c = None
                p = _poly_items(raw[i]) if i < len(raw) and isinstance(raw[i], tuple) else None
                if p is not None and len(p) == 1 and p[0][0] == (): c = p[0][1][0]
                if p == (): c = 0
                out.append(ONE if c == 1 else (('EMPTY',) if c == 0 else U('shape')))
        return out

    def stack(s, kind, parts, text):
        ts = [s.ty(p) for p in parts]
        ts = [('arr', (s.iter_space(t),)) if t[0] in ('vals', 'labs', 'idxs') and s.iter_space(t) is not None else t for t in ts]      # a plain list is a vector on the space it lists
        ts = [t for t in ts if t[0] == 'arr' or t[0] == 'rows']
        if not ts or len(ts) != len(parts): return unk(kind)
        norm = []
        for t in ts:
            if t[0] == 'rows': norm.append(('arr', (t[1],) + tuple(t[2])))
            else: norm.append(t)
        ax = 1 if kind == 'hcat' else 0
        if all(len(t[1]) == 1 for t in norm):
            sp = norm[0][1][0]
            for t in norm[1:]:
                if sp == ('EMPTY',): sp = t[1][0]
                elif t[1][0] != ('EMPTY',): sp = ('CAT', sp, t[1][0])
            return ('arr', (sp,))
        first = norm[0]
        if len(first[1]) != 2: return unk(kind)
        other = 1 - ax
        for t in norm[1:]:
            if len(t[1]) == 1 and kind == 'vcat':
                s.ob('vstack:other-axis', same(first[1][1], t[1][0]), f"{show(first[1][1])} stacked above a row laid out as {show(t[1][0])}", text, (first[1][1], t[1][0]))
            if len(t[1]) == 2:
                s.ob(('hstack' if kind == 'hcat' else 'vstack') + ':other-axis', same(first[1][other], t[1][other]), f"{show(first[1][other])} stacked next to {show(t[1][other])}", text, (first[1][other], t[1][other]))
        sp = first[1][ax]
        for t in norm[1:]:
            pa = t[1][ax] if len(t[1]) == 2 else ONE
            if sp == ('EMPTY',): sp = pa
            elif pa == ('EMPTY',): pass
            else: sp = ('CAT', sp, pa)
        axes = list(first[1]); axes[ax] = sp
        return ('arr', tuple(axes))

    def opq(s, k):
        tag = k[1]
        text = repr(k)[:80]
        if tag in ('np.zeros', 'np.empty', 'np.ndarray', 'np.full', 'np.ones'):
            sh = None
            for a in k[2:]:
                if isinstance(a, tuple) and a[:2] == ('opq', 'kw'):
                    if a[2] == 'shape': sh = a[3]
                elif sh is None: sh = a
            return ('arr', tuple(s.shape_axes(sh))) if sh is not None else unk('zeros')
        if tag in ('np.zeros_like', 'np.empty_like', 'np.copy', 'np.asarray', 'np.array', 'np.real', 'np.conj', 'np.abs', 'np.ascontiguousarray', 'np.negative', 'np.nan_to_num'):
            a = s.ty(k[2])
            if a[0] == 'labs' and tag in ('np.array', 'np.asarray'): return ('arr', (a[1],))
            return a
        if tag in ('np.eye', 'np.identity'):
            a = s.ty(k[2]); sp = a[1] if a[0] == 'size' else U('eye')
            return ('arr', (sp, sp))
        if tag == 'build': return s.build(k)
        if tag in ('hcat', 'vcat'): return s.stack(tag, k[2:], text)
        if tag == 'rows':
            c = s.ty(k[2])
            if c[0] == 'arr': return c
            return unk('rows')
        if tag == 'np.setdiff1d' and len(k) >= 4:
            # the SORTED labels of the first argument that are not in the second
            a = s.ty(k[2]); d = s.ty(k[3]); name = None
            if d[0] == 'dict': name = d[1]
            elif d[0] == 'labs' and flat(d[1]) and flat(d[1])[0][0] == 'ORD': name = flat(d[1])[0][1]
            if a[0] == 'labs' and name is not None:
                srt = _sorted_space(a[1])
                if srt[0] != 'U': return ('labs', ('SUB', srt, 'notin:' + name))
            return unk('setdiff1d')
        if tag in ('np.unique', 'np.sort') and len(k) == 3:
            a = s.ty(k[2])
            if a[0] == 'labs': return ('labs', _sorted_space(a[1]))
            return a
        if tag in ('np.diag', 'np.diagonal'):
            a = s.ty(k[2])
            if a[0] == 'arr' and len(a[1]) == 2:
                s.ob('diag:square', same(a[1][0], a[1][1]), f"diagonal of {show(a[1][0])} × {show(a[1][1])}", text)
                return ('arr', (a[1][0],))
            if a[0] == 'arr' and len(a[1]) == 1: return ('arr', (a[1][0], a[1][0]))
            if a[0] in ('labs', 'vals'): return ('arr', (a[1], a[1]))
            return ('arr', (U('diag'), U('diag')))
        if tag == 'np.ix_': return ('ix', [s.ty(a) for a in k[2:]])
        if tag in ('np.flatnonzero', 'np.nonzero', 'np.where'):
            a = s.ty(k[2])
            if a[0] == 'arr' and len(a[1]) == 1:
                sel = ('SUB', a[1][0], 'filter:?#' + _h(k[2]))       # the positions where one given mask holds: the same mask, the same subset
                return ('idxs', a[1][0], sel)
            return unk(tag)
        if tag in ('np.any', 'np.all'):
            a = s.ty(k[2]); ax = None
            for x in k[3:]:
                if isinstance(x, tuple) and x[:3] == ('opq', 'kw', 'axis'):
                    p = _poly_items(x[3]); ax = int(p[0][1][0]) if p and p[0][0] == () else (0 if p == () else None)
            if a[0] == 'arr' and len(a[1]) == 2 and ax is not None: return ('arr', (a[1][1 - ax],))
            return NUM
        if tag in ('np.isnan', 'np.isfinite', 'np.logical_not', 'np.sqrt', 'np.cos', 'np.sin', 'np.angle', 'np.exp', 'isfinite'):
            a = s.ty(k[2]); return a if a[0] == 'arr' else NUM
        if tag in ('np.delete',):
            a = s.ty(k[2])
            if a[0] == 'arr':
                axv = None
                for x in k[3:]:
                    if isinstance(x, tuple) and x[:3] == ('opq', 'kw', 'axis'):
                        p = _poly_items(x[3]); axv = int(p[0][1][0]) if p and p[0][0] == () else (0 if p == () else None)
                tagd = 'data-dependent-delete#' + str(next(_cnt))
                return ('arr', tuple(('SUB', ax, tagd) if i == axv else ax for i, ax in enumerate(a[1])))
            return unk('delete')
        if tag == 'sorted':
            a = s.ty(k[2])
            if len(k) > 3: return unk('sorted(key=)') if a[0] != 'branches' else a
            if a[0] == 'dict': return ('labs', ('SORT', ('ORD', a[1])))
            if a[0] == 'labs' and a[1][0] == 'ORD': return ('labs', ('SORT', a[1]))
            if a[0] == 'labs': return ('labs', _sorted_space(a[1]))
            return unk('sorted')
        if tag in ('list', 'tuple', 'iter', 'set'):
            a = s.ty(k[2]) if len(k) > 2 else unk('empty')
            if a[0] == 'dict': return ('labs', ('ORD', a[1]))
            if a[0] == 'map': return ('labs', a[2] if len(a) > 2 else a[1])
            return a
        if tag == 'keys':
            a = s.ty(k[2])
            if a[0] == 'dict': return ('labs', ('ORD', a[1]))
            if a[0] == 'dictmap': return ('labs', a[1])
            return unk('keys')
        if tag == 'values':
            a = s.ty(k[2])
            if a[0] == 'dict': return ('vals', ('ORD', a[1]))
            if a[0] == 'dictmap': return ('idxs', a[1], a[1])
            return unk('values')
        if tag == 'items':
            a = s.ty(k[2])
            return ('items', a)
        if tag == 'concat':
            ts = [s.ty(a) for a in k[2:]]
            if all(t[0] == 'labs' for t in ts):
                sp = ts[0][1]
                for t in ts[1:]: sp = ('CAT', sp, t[1])
                return ('labs', sp)
            if all(t[0] in ('vals', 'arr') for t in ts):
                sp = ts[0][1] if ts[0][0] == 'vals' else ts[0][1][0]
                for t in ts[1:]: sp = ('CAT', sp, t[1] if t[0] == 'vals' else t[1][0])
                return ('arr', (sp,))
            return unk('concat')
        if tag == 'enumerate': return s.ty(k[2])
        if tag == 'product': return ('tuple', [s.ty(a) for a in k[2:]])
        if tag == 'zip':
            ts = [s.ty(a) for a in k[2:]]
            sps = [s.iter_space(t) for t in ts]
            for x in sps[1:]:
                if sps[0] is not None and x is not None:
                    s.ob('zip', same(sps[0], x), f"{show(sps[0])} paired position-wise with {show(x)}", text)
            return ('zipped', ts)
        if tag == 'mutated':
            if k[2] == 'sort': return s.ty(k[3])
            for a in k[3:]: s.ty(a)
            return unk('mutated')
        if tag == 'Σ':
            s.ty(k[2]); return NUM
        if tag in ('cmp', 'and', 'or', 'not', 'in', 'is', 'any', 'all'):
            ts_ = [s.ty(a) for a in k[2:] if isinstance(a, tuple)]
            if tag in ('cmp', 'not') and len(ts_) == 1 and ts_[0][0] == 'arr': return ts_[0]        # an element-wise test of an array: a mask on the same axes
            return NUM
        if tag == 'slice': return ('slice', s.ty(k[2]) if k[2] is not None else None, s.ty(k[3]) if k[3] is not None else None)
        if tag == 'loop':
            for a in k[2:]: s.ty(a)
            return unk('loop')
        if tag in ('init', 'step'):
            return s.ty(k[2])
        if tag == 'item':
            a = s.ty(k[2]); return s.elem(a)
        if tag == 'np.hstack' or tag == 'np.vstack' or tag == 'np.concatenate' or tag == 'np.block':
            a = s.ty(k[2]); return unk(tag)
        if tag in ('np.matmul', 'np.dot') and len(k) == 4:
            a, b = s.ty(k[2]), s.ty(k[3])
            if a[0] == 'arr' and b[0] == 'arr':
                s.ob('matmul', same(a[1][-1], b[1][0]), f"{show(a[1][-1])} contracted with {show(b[1][0])}", text, (a[1][-1], b[1][0]))
                return ('arr', tuple(a[1][:-1]) + tuple(b[1][1:]))
        if tag == 'np.transpose':
            a = s.ty(k[2]); return ('arr', tuple(reversed(a[1]))) if a[0] == 'arr' else a
        if tag == 'np.size':
            a = s.ty(k[2]); return ('size', a[1][0]) if a[0] == 'arr' and len(a[1]) == 1 else ('size', U('size'))
        if tag == 'bitop' and len(k) == 5:
            a, b = s.ty(k[3]), s.ty(k[4])
            if a[0] == 'arr' and b[0] == 'arr' and len(a[1]) == len(b[1]):
                for x, y in zip(a[1], b[1]):
                    s.ob('elementwise', same(x, y), f"{show(x)} combined element-wise with {show(y)}", text, (x, y))
                return a
            return a if a[0] == 'arr' else b
        if tag == 'kw': return s.ty(k[3])
        if tag == 'np.solve' and len(k) == 4:
            a, b = s.ty(k[2]), s.ty(k[3])
            if a[0] == 'arr' and b[0] == 'arr' and len(a[1]) == 2:
                s.ob('solve:rhs', same(a[1][0], b[1][0]), f"equations laid out {show(a[1][0])}, right-hand side {show(b[1][0])}", text)
                return ('arr', (a[1][1],) + tuple(b[1][1:]))
        inner = [s.ty(a) for a in k[2:] if isinstance(a, tuple)]
        if tag in ('np.ravel', 'np.squeeze') and inner and inner[0][0] == 'arr':
            keep = [a for a in inner[0][1] if a != ONE]
            return ('arr', tuple(keep) if keep else (ONE,))
        return unk('opq ' + str(tag))

    # ------------------------------------------------------------------ builds
    def _resolve_any(s, base, recs):
        """axes declared as a sum of sizes get their block order from the prefix / tail slices of the stores that fill them"""
        axes = list(base[1])
        for ai, ax in enumerate(axes):
            if not (isinstance(ax, tuple) and ax[:1] == ('ANY',)): continue
            blocks = list(ax[1]); first = None
            for r in recs:
                if not (isinstance(r, tuple) and r[:2] == ('opq', 'st')): continue
                idx = r[4][1] if isinstance(r[4], tuple) and r[4][:1] == ('tuple',) else ()
                if ai >= len(idx): continue
                it = s.index_item(idx[ai])
                if it[0] == 'slice':
                    lo, up = it[1], it[2]
                    if lo is None and up is not None and up[0] == 'size' and up[1] in blocks: first = up[1]
                    if up is None and lo is not None and lo[0] == 'size' and lo[1] in blocks: first = lo[1]
            if first is not None and len(blocks) == 2:
                other = [b for b in blocks if b != first][0]
                axes[ai] = ('CAT', first, other)
            else:
                axes[ai] = U('order of the blocks')
        return ('arr', tuple(axes))

    def build(s, k):
        base = s.ty(k[2])
        if base[0] == 'arr' and any(isinstance(a, tuple) and a[:1] == ('ANY',) for a in base[1]):
            base = s._resolve_any(base, k[3][1] if isinstance(k[3], tuple) and k[3][:1] == ('tuple',) else ())
        if base[0] != 'arr':
            for r in k[3][1] if isinstance(k[3], tuple) and k[3][:1] == ('tuple',) else (): s.ty(r)
            return base
        recs = k[3][1] if isinstance(k[3], tuple) and k[3][:1] == ('tuple',) else ()
        for r in recs:
            # ('opq','st', gens, guard, idx tuple, val, aug)
            if not (isinstance(r, tuple) and r[:2] == ('opq', 'st')): continue
            idx = r[4][1] if isinstance(r[4], tuple) and r[4][:1] == ('tuple',) else ()
            if isinstance(r[3], tuple): s.ty(r[3])
            items = []
            for i in idx:
                it = s.index_item(i)
                if it[0] == 'tuple' and it[1] and all(e[0] in ('idx', 'idxplus') for e in it[1]): items += list(it[1])
                else: items.append(it)
            text = repr(r)[:80]
            # a store through an index LIST with accumulation is not summed per repeated position
            def listlike(ik, it):
                if it[0] in ('idxs', 'labs', 'tuple') or (it[0] == 'arr' and len(it[1]) >= 1): return True
                if isinstance(ik, tuple) and (ik[:1] in (('comp',), ('list',)) or ik[:2] in (('opq', 'list'), ('opq', 'sorted'), ('opq', 'concat'), ('opq', 'np.array'), ('opq', 'np.asarray'))): return True
                return False
            if r[6] is True and any(listlike(ik, it) for ik, it in zip(idx, items)):
                s.ob('scatter-accumulate', False, "augmented assignment through an index LIST: numpy buffers the operation, contributions that address the same position "
                     "more than once are not summed (use np.add.at or a matrix product)", text)
            elif r[6] is True and any(it[0] not in ('idx', 'idxplus', 'num', 'slice', 'size', 'tuple', 'mask') or (it[0] == 'num' and isinstance(ik, tuple) and _poly_items(ik) not in ((),) and not (len(_poly_items(ik) or ()) == 1 and _poly_items(ik)[0][0] == ()))
                                      for ik, it in zip(idx, items)):
                s.ob('scatter-accumulate', None, "augmented assignment through an index that was not typed as ONE position: if it is an index array, contributions "
                     "that address the same position more than once are not summed", text)
            res = s.index_array(base, items, text, 'store-index')
            val = s.ty(r[5]) if isinstance(r[5], tuple) else NUM
            if res[0] == 'arr' and val[0] == 'arr' and len(res[1]) == len(val[1]):
                for x, y in zip(res[1], val[1]):
                    s.ob('block-store', same(x, y), f"a block laid out {show(y)} is stored into a region laid out {show(x)}", text, (x, y))
        return base

    # ------------------------------------------------------------------ comprehensions
    def filter_key(s, f, beta):
        """canonical key of a filter term on the bound variable `beta` (atom key)"""
        if not isinstance(f, tuple): return 'filter:' + _h(f)
        neg = False
        if f[:2] == ('opq', 'not'): neg, f = True, f[2]
        if f[:2] == ('opq', 'in') and len(f) == 4:
            d = s.ty(f[3])
            if d[0] == 'dict': return ('notin:' if neg else 'in:') + d[1]
            if d[0] == 'labs' and d[1][0] == 'ORD': return ('notin:' if neg else 'in:') + d[1][1]
            if d[0] == 'labs' and flat(d[1]) and flat(d[1])[0][0] == 'ORD': return ('notin:' if neg else 'in:') + flat(d[1])[0][1]
        if f[:2] == ('opq', 'cmp') and len(f) == 4:
            op, p = f[2], _poly_items(f[3])
            if p is not None and op in ('Eq', 'NotEq'):
                ne = (op == 'NotEq') != neg
                atoms = [m[0][0] for m, c in p if len(m) == 1 and m[0][1] == 1]
                if len(p) == 2 and len(atoms) == 2 and any(a == ('.', 'network', 'node_zero_label') or (isinstance(a, tuple) and a[:1] == ('.',) and a[2] == 'node_zero_label') for a in atoms):
                    return 'ne:zero' if ne else 'eq:zero'
                if len(p) == 1 and len(atoms) == 1 and isinstance(atoms[0], tuple) and atoms[0][:1] == ('call',) and isinstance(atoms[0][1], tuple) and atoms[0][1][:1] == ('fn',) \
                        and atoms[0][1][1].startswith('is_'):
                    # truth of a predicate call: NotEq 0 is "holds"
                    return ('pred:' if ne else 'notpred:') + atoms[0][1][1]
        if f[:3] == ('opq', 'cmp', 'Eq') and len(f) == 5:
            strs = [x for x in f[3:] if isinstance(x, str)]
            others = [x for x in f[3:] if not isinstance(x, str)]
            if len(strs) == 1 and len(others) == 1:
                p = _poly_items(others[0])
                if p and len(p) == 1 and len(p[0][0]) == 1 and isinstance(p[0][0][0][0], tuple) and p[0][0][0][0][:1] == ('.',):
                    return ('not:' if neg else '') + f"{p[0][0][0][0][2]}=={strs[0]}"
        return 'filter:?#' + _h(f)

    def comp(s, k):
        kind, eltk, gens = k[1], k[2], k[3]
        it_k, filts = gens[0]
        src = s.ty(it_k)
        base = s.iter_space(src)
        if src[0] == 'zipped': base = s.iter_space(src[1][0]) if src[1] else None
        if src[0] == 'items': base = s.iter_space(src[1])
        beta = ('β', 0, it_k)
        filt = None
        for f in filts:
            fk = s.filter_key(f, beta)
            s.ty(f)
            filt = fk if filt is None else filt + '&' + fk
        if base is None: base = U('comp')
        if filt is not None and base[0] == 'S' and filt.startswith('pred:') and base[1].split('@')[0] in ('branch', 'node') and '&' not in filt:
            res = ('S', filt[5:] + ('@' + base[1].split('@')[1] if '@' in base[1] else ''), base[2])
        elif filt is not None and base[0] == 'S' and filt == 'ne:zero' and base[1].split('@')[0] == 'node':
            res = ('S', 'node!=zero' + ('@' + base[1].split('@')[1] if '@' in base[1] else ''), base[2])
        else:
            res = ('SUB', base, filt) if filt is not None else base
        if len(gens) > 1:
            for it2, f2 in gens[1:]:
                s.ty(it2)
                for f in f2: s.ty(f)
            res = U('nested-comp')
        if kind == 'dict':
            kt = s.ty(eltk[1][0]) if isinstance(eltk, tuple) and eltk[:1] == ('tuple',) else unk('key')
            vt = s.ty(eltk[1][1]) if isinstance(eltk, tuple) and eltk[:1] == ('tuple',) else unk('val')
            if kt[0] == 'lab' and vt[0] == 'idx':
                if vt[2] is None and same(kt[1], vt[1]) is True: return ('dictmap', res)
                # {element of L: its position in L}: the key is the element TERM of the enumerated list (a filtered comprehension is
                # expressed over the element of its base list, so its label type alone is the unfiltered space)
                if vt[2] is None and isinstance(it_k, tuple) and it_k[:2] == ('opq', 'enumerate'):
                    L = it_k[2]
                    want = L[2] if isinstance(L, tuple) and L[:1] == ('comp',) and len(L[3]) == 1 else ('poly', (((('β', 0, L), F(1)),), (F(1), F(0))))
                    vat = _poly_items(eltk[1][1])
                    if eltk[1][0] == want and vat and len(vat) == 1 and len(vat[0][0]) == 1 and vat[0][0][0][0] == ('idx', 0, L):
                        return ('dictmap', vt[1])
                # {l: position[l] for l in L} with position = the places in sorted(L): indices follow the sorted order, the KEYS are listed in the
                # order of L -- whoever iterates the keys does not visit them in index order
                vat = _poly_items(eltk[1][1])
                if vt[2] is None and vat and len(vat) == 1 and len(vat[0][0]) == 1 and isinstance(vat[0][0][0][0], tuple) and vat[0][0][0][0][:1] == ('[]',) \
                        and vat[0][0][0][0][2] == eltk[1][0] and same(_sorted_space(res), vt[1]) is True:
                    return ('dictmap', vt[1]) if same(res, vt[1]) is True else ('dictmap', vt[1], res)
                return ('dictmap', U('LabelMapping'))
            if src[0] in ('components',) or (kt[0] in ('lab', 'num', 'unk') and vt[0] in ('num', 'unk')):
                name = show(res).replace('#', '_')
                return ('dict', name)
            return unk('dict-comp')
        el = s.ty(eltk)
        if el[0] == 'tuple' and el[1] and kind in ('list', 'gen') and all(x[0] in ('idx', 'idxplus', 'lab', 'num') for x in el[1]) and any(x[0] == 'idx' for x in el[1]):
            return ('tuples', res, tuple(el[1]))          # a list of (index, ...) tuples: np.transpose(...) / zip(*...) of it is a tuple of parallel lists
        if el[0] in ('idx',): return ('idxs', el[1], res)
        if el[0] == 'idxplus': return ('idxs', el[1][1], res)
        if el[0] == 'lab': return ('labs', res)
        if el[0] == 'arr':
            if kind in ('list', 'gen') and src[0] == 'zipped': return ('arr', (res,) + tuple(el[1]))
            return ('arr', (res,) + tuple(el[1]))
        if el[0] == 'branch': return ('branches', 0)
        if el[0] in ('num', 'unk', 'elem'): return ('arr', (res,))
        return ('arr', (res,))

    # ------------------------------------------------------------------ records
    def rec(s, k):
        cls, fields = k[1], dict(k[2])
        if cls == 'LabelMapping':
            m = s.ty(fields.get('mapping')) if 'mapping' in fields else unk('mapping')
            if m[0] == 'dictmap': return ('map',) + tuple(m[1:])
            return ('map', U('LabelMapping'))
        if cls == 'Network':
            br, zero = fields.get('branches'), fields.get('node_zero_label')
            plain_br = br == ('poly', (((('.', 'network', 'branches'), F(1)),), (F(1), F(0))))
            plain_zero = zero == ('poly', (((('.', 'network', 'node_zero_label'), F(1)),), (F(1), F(0))))
            if br is not None: s.ty(br)
            if plain_br and plain_zero: return ('net', 0)
            return ('net', s.net_ident(k))
        if cls == 'Branch': return ('branch', U('branch'))
        for v in fields.values():
            if isinstance(v, tuple): s.ty(v)
        return ('obj', cls, tuple(sorted(fields.items(), key=lambda kv: kv[0])))
