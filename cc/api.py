"""Convenience layer over the engines: load the program once, evaluate functions/specs to terms."""
from __future__ import annotations
import ast, os
from .prog import Program, Func, Module
from .terms import Evaluator, Poly, Ref, Rec, Opq, Cond, Comp, Closure, tkey

_PROG = {}


def program(root=None) -> Program:
    root = root or os.environ.get('VERIF_REPO_SRC') or os.path.join(os.environ.get('VERIF_REPO', '/repo'), 'src')
    if root not in _PROG:
        _PROG[root] = Program(root)
    return _PROG[root]


def A(name):
    """named atom"""
    return Poly.atom(name)


MATH_ENV = {n: Ref('npfun', None, None, n) for n in
            ('cos', 'sin', 'exp', 'sqrt', 'conj', 'real', 'imag', 'angle', 'floor', 'ceil', 'mod', 'radians', 'degrees')}
MATH_ENV.update({'abs': Ref('builtin', None, None, 'abs'), 'round': Ref('npfun', None, None, 'round'),
                 'pi': Poly.atom('pi'), 'inf': Poly.atom('inf'), 'nan': Poly.atom('nan')})


def spec(ev: Evaluator, src: str, env: dict, mod: Module | None = None):
    """normalise a specification expression with the same code that normalises the repository's expressions"""
    e = ast.parse(src, mode='eval').body
    full = {'__parent__': None}
    full.update(MATH_ENV); full.update(env)
    m = mod or next(iter(ev.prog.modules.values()))
    return ev.fresh().ev(e, full, m, 0)


def call(ev: Evaluator, f: Func, args=(), kw=None, self_val=None):
    a = ([self_val] if self_val is not None else []) + list(args)
    env = {'__parent__': None}
    if f.parent is not None:
        raise ValueError('nested function: evaluate through its parent')
    return ev.call_fn(f.node, f.mod, a, dict(kw or {}), env, 1)


def call_ref(ev: Evaluator, mod: Module, node, args=(), kw=None):
    return ev.call_fn(node, mod, list(args), dict(kw or {}), {'__parent__': None}, 1)


def bound_args(prog, at):
    """{parameter name: argument key} of a call atom ('call', ('fn'|'cls', name), positional keys, keyword keys) of a package function / dataclass"""
    import ast as _ast
    from .prog import params_of
    out = dict(at[3])
    kind, name = at[1][0], at[1][1]
    names = []
    if kind == 'fn':
        for q, f in prog.funcs.items():
            if f.parent is None and f.node.name == name and not isinstance(f.node, _ast.Lambda):
                names = params_of(f.node)[0]; break
    elif kind == 'cls':
        for m in prog.modules.values():
            c = m.defs.get(name)
            if isinstance(c, _ast.ClassDef):
                names = [f[0] for f in prog.dataclass_fields(m, c) if f[3]]; break
    for i, a in enumerate(at[2]):
        if i < len(names): out.setdefault(names[i], a)
    return out
