"""Obligation bookkeeping, evidence files, known findings and exit codes.

Three-valued obligations (DESIGN.md section 1):
  PROVEN   the rule instance holds by construction of the code
  REFUTED  both sides fully interpreted and different -> VIOLATION (exit 1) unless listed as known finding
  UNKNOWN  engine could not interpret; alarms only (as ANALYSIS-ERROR, exit 2) when the instance belongs to
           the confirmed baseline of the rule (baseline.json) -- never a VIOLATION line.
"""
from __future__ import annotations
import json, os, sys, time, hashlib, traceback

VERIF = os.path.dirname(os.path.dirname(os.path.abspath(__file__)))
PROVEN, REFUTED, UNKNOWN, INFO = 'PROVEN', 'REFUTED', 'UNKNOWN', 'INFO'


def _load_json(path, default):
    try:
        with open(path) as f:
            return json.load(f)
    except FileNotFoundError:
        return default


class AnalysisError(Exception):
    """The analyser cannot stand behind a verdict (anchor vanished, idiom not understood)."""


class Report:
    def __init__(self, pid: str, tier: str = 'quick', repo_root: str = '/repo', write: bool = True):
        self.pid, self.tier, self.repo_root, self.write = pid, tier, repo_root, write
        self.t0 = time.time()
        self.obs: list[dict] = []
        self.infos: list[str] = []
        self.errors: list[str] = []
        self.assumptions: list[str] = []
        self.rules: dict[str, str] = {}
        self.analysed: dict[str, int] = {}
        self.extra: dict = {}
        kf = _load_json(os.path.join(VERIF, 'known_findings.json'), {'known': [], 'fixed': []})
        self.known = [k for k in kf.get('known', []) if k.get('property') == pid]
        self.fixed = [k for k in kf.get('fixed', []) if k.get('property') == pid]
        self.baseline = _load_json(os.path.join(VERIF, 'baseline.json'), {}).get(pid, {})

    # ------------------------------------------------------------------ recording
    def rule(self, rid: str, text: str):
        self.rules[rid] = text

    def assume(self, text: str):
        if text not in self.assumptions:
            self.assumptions.append(text)

    def count(self, what: str, n: int = 1):
        self.analysed[what] = self.analysed.get(what, 0) + n

    def ob(self, rule: str, key: str, verdict, detail: str = '', site: str = '', lhs=None, rhs=None):
        if verdict is True: verdict = PROVEN
        elif verdict is False: verdict = REFUTED
        elif verdict is None: verdict = UNKNOWN
        d = {'rule': rule, 'key': key, 'verdict': verdict, 'detail': detail, 'site': site}
        if lhs is not None: d['code'] = str(lhs)[:600]
        if rhs is not None: d['spec'] = str(rhs)[:600]
        # de-duplicate identical keys (same obligation reached along two call chains): worst verdict wins
        for o in self.obs:
            if o['rule'] == rule and o['key'] == key:
                order = {PROVEN: 0, UNKNOWN: 1, REFUTED: 2}
                if order[verdict] > order[o['verdict']]:
                    o.update(d)
                return o
        self.obs.append(d)
        return d

    def info(self, text: str):
        self.infos.append(text)

    def error(self, text: str):
        self.errors.append(text)

    # ------------------------------------------------------------------ finishing
    def _is_known(self, o) -> dict | None:
        for k in self.known:
            if k.get('rule') == o['rule'] and k.get('key') == o['key']:
                return k
        return None

    def judge(self):
        """(exit code, messages) this report would produce -- the verdict of the real check, without printing or writing (used by the self-test
        to judge behaviour-preserving variants exactly as a run on such a tree would be judged)"""
        violations = [o for o in self.obs if o['verdict'] == REFUTED and not self._is_known(o)]
        msgs = [f"{o['rule']} {o['key']}" for o in violations]
        per_rule: dict[str, int] = {}
        for o in self.obs: per_rule[o['rule']] = per_rule.get(o['rule'], 0) + 1
        by_key = {(o['rule'], o['key']): o for o in self.obs}
        errs = list(self.errors)
        for rid, spec in self.baseline.get('rules', {}).items():
            if per_rule.get(rid, 0) < spec.get('min', 0): errs.append(f"rule={rid} matched {per_rule.get(rid, 0)} instances, baseline confirmed {spec['min']}")
            unk = sum(1 for o in self.obs if o['rule'] == rid and o['verdict'] == UNKNOWN)
            if unk > spec.get('max_unknown', 10 ** 9): errs.append(f"rule={rid}: {unk} instances are undecidable")
            for key in spec.get('keys', []):
                o = by_key.get((rid, key))
                if o is None: errs.append(f"rule={rid} instance={key} vanished")
                elif o['verdict'] == UNKNOWN: errs.append(f"rule={rid} instance={key} no longer decidable")
        return (1 if violations else (2 if errs else 0)), msgs + errs

    def finish(self) -> int:
        out = []
        violations, known_hits, unknown_baseline = [], [], []
        for o in self.obs:
            if o['verdict'] == REFUTED:
                k = self._is_known(o)
                (known_hits if k else violations).append((o, k))
        # baseline: required keys must exist and be PROVEN (or a listed known finding); minimum counts per rule
        per_rule: dict[str, int] = {}
        for o in self.obs:
            per_rule[o['rule']] = per_rule.get(o['rule'], 0) + 1
        by_key = {(o['rule'], o['key']): o for o in self.obs}
        for rid, spec in self.baseline.get('rules', {}).items():
            have = per_rule.get(rid, 0)
            if have < spec.get('min', 0):
                unknown_baseline.append(f"rule={rid} matched {have} instances, baseline confirmed {spec['min']}")
            unk = sum(1 for o in self.obs if o['rule'] == rid and o['verdict'] == UNKNOWN)
            if unk > spec.get('max_unknown', 10 ** 9):
                first = next(o for o in self.obs if o['rule'] == rid and o['verdict'] == UNKNOWN and o['key'] not in spec.get('unknown_keys', []))  if any(o['rule'] == rid and o['verdict'] == UNKNOWN and o['key'] not in spec.get('unknown_keys', []) for o in self.obs) else next(o for o in self.obs if o['rule'] == rid and o['verdict'] == UNKNOWN)
                unknown_baseline.append(f"rule={rid}: {unk} instances are undecidable (baseline {spec.get('max_unknown')}), e.g. instance={first['key']} site={first['site']}: {first['detail'][:200]}")
            for key in spec.get('keys', []):
                o = by_key.get((rid, key))
                if o is None:
                    unknown_baseline.append(f"rule={rid} instance={key} vanished")
                elif o['verdict'] == UNKNOWN:
                    unknown_baseline.append(f"rule={rid} instance={key} no longer decidable: {o['detail'][:200]}")
        os.makedirs(os.path.join(VERIF, 'evidence', 'replay'), exist_ok=True)
        for o, _ in violations:
            h = hashlib.sha1((o['rule'] + '|' + o['key']).encode()).hexdigest()[:10]
            rp = os.path.join(VERIF, 'evidence', 'replay', f"{self.pid}-{o['rule']}-{h}.json")
            if self.write:
                with open(rp, 'w') as f:
                    json.dump({'property': self.pid, **o, 'repo_root': self.repo_root}, f, indent=1, ensure_ascii=False)
            out.append(f"VIOLATION property={self.pid} replay={rp}")
            out.append(f"    rule={o['rule']} instance={o['key']} site={o['site']}")
            out.append(f"    {o['detail'][:400]}")
        for o, k in known_hits:
            out.append(f"KNOWN-FINDING: property={self.pid} {k.get('what', o['key'])} [rule={o['rule']} instance={o['key']}]")
        for e in self.errors + unknown_baseline:
            out.append(f"ANALYSIS-ERROR: property={self.pid} {e}")
        n_ob = len(self.obs)
        n_ok = sum(1 for o in self.obs if o['verdict'] == PROVEN)
        n_unk = sum(1 for o in self.obs if o['verdict'] == UNKNOWN)
        out.append(f"{self.pid} [{self.tier}] obligations={n_ob} proven={n_ok} refuted={len(violations) + len(known_hits)} "
                   f"(known={len(known_hits)}) unknown={n_unk} analysed={self.analysed} wall={time.time() - self.t0:.2f}s")
        code = 1 if violations else (2 if (self.errors or unknown_baseline) else 0)
        if self.write:
            self._write_evidence(n_ob, n_ok, len(violations), known_hits)
        print('\n'.join(out))
        if os.environ.get('VERIF_VERBOSE'):
            for o in self.obs:
                print(f"  [{o['verdict']:8}] {o['rule']:18} {o['key']}  {o['detail'][:160]}")
            for i in self.infos:
                print('  info:', i)
        return code

    def _write_evidence(self, n_ob, n_ok, n_viol, known_hits):
        distinct = len({(o['rule'], o['key']) for o in self.obs if o['verdict'] != INFO})
        samples = []
        seen_rules = set()
        for o in self.obs:                     # one sample per rule first, then fill up
            if o['rule'] not in seen_rules:
                seen_rules.add(o['rule']); samples.append(o)
        for o in self.obs:
            if len(samples) >= 40: break
            if o not in samples: samples.append(o)
        ev = {
            'property_id': self.pid,
            'tier': self.tier,
            'seed': int(os.environ.get('VERIF_SEED', '0') or 0),
            'level': 'other',
            'coverage': {
                'explanation': 'Static analysis of /repo/src (ast only, nothing imported or executed). Rules applied: '
                               + '; '.join(f'{k}: {v}' for k, v in self.rules.items()),
                'obligations': n_ob,
                'discharged': n_ok,
                'evaluations': n_ob,
                'distinct_nontrivial': distinct,
                'rule': 'one obligation per (rule, semantic instance key) found in the current tree; an instance is non-trivial '
                        'when the engine interpreted an actual construct of the repository (site recorded)',
                'samples': samples,
                'analysed': self.analysed,
                'known_findings_hit': [k.get('what') for _, k in known_hits],
                'infos': self.infos[:40],
                'exhaustive': bool(self.extra.get('exhaustive', False)),
                **{k: v for k, v in self.extra.items() if k != 'exhaustive'},
            },
            'assumptions': self.assumptions,
            'wall_s': round(time.time() - self.t0, 3),
            'violations': n_viol,
        }
        os.makedirs(os.path.join(VERIF, 'evidence'), exist_ok=True)
        with open(os.path.join(VERIF, 'evidence', f'{self.pid}.json'), 'w') as f:
            json.dump(ev, f, indent=1, ensure_ascii=False, default=str)


def run_guarded(pid: str, tier: str, fn, repo_root: str = '/repo', write: bool = True) -> int:
    rep = Report(pid, tier, repo_root, write)
    import signal
    class _Timeout(Exception): pass
    def _on_alarm(sig, frm): raise _Timeout()
    limit = int(os.environ.get('VERIF_TIME_LIMIT', '900' if tier == 'quick' else '3600'))
    try:
        signal.signal(signal.SIGALRM, _on_alarm); signal.alarm(limit)
    except Exception:
        pass
    try:
        fn(rep)
    except _Timeout:
        rep.error(f'analysis did not finish within {limit} s (VERIF_TIME_LIMIT): no verdict')
    except AnalysisError as e:
        rep.error(str(e))
    except Exception as e:  # traceback = analysis broken, never a violation
        tb = traceback.format_exc().strip().splitlines()
        rep.error(f"internal {type(e).__name__}: {e} @ {tb[-3].strip() if len(tb) >= 3 else ''}")
        if os.environ.get('VERIF_VERBOSE'):
            traceback.print_exc()
    try: signal.alarm(0)
    except Exception: pass
    return rep.finish()
